module verifharness

go 1.23.0

toolchain go1.23.5

require github.com/maruel/panicparse/v2 v2.0.0

require (
	github.com/mattn/go-colorable v0.1.14 // indirect
	github.com/mattn/go-isatty v0.0.20 // indirect
	github.com/mgutz/ansi v0.0.0-20200706080929-d51e80ef957d // indirect
	golang.org/x/sys v0.31.0 // indirect
)

replace github.com/maruel/panicparse/v2 => /repo
