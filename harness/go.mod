module verifharness

go 1.23.0

toolchain go1.23.5

require github.com/maruel/panicparse/v2 v2.0.0

replace github.com/maruel/panicparse/v2 => /repo
