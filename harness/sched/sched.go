// Package sched provides scripted io.Reader / io.Writer implementations that
// play the role of the scheduler: they decide how a fixed byte stream is
// delivered (chunk sizes, zero-length reads, when and how the end or a
// failure is signalled) and record what the code under test did with it.
package sched

import (
	"bytes"
	"errors"
	"io"
)

// ErrInjected is the reader failure injected by fault modes.
var ErrInjected = errors.New("verif: injected read failure")

// temporaryError describes itself as temporary and as a timeout (like EAGAIN, EINTR, a deadline): a failure that
// persists must still be reported as this very error.
type temporaryError struct{}

func (temporaryError) Error() string {
	return "verif: injected read failure that calls itself temporary"
}
func (temporaryError) Temporary() bool { return true }
func (temporaryError) Timeout() bool   { return true }

// ErrTemporary is the persistent "temporary" reader failure.
var ErrTemporary error = temporaryError{}

// Event is one scan-hook observation (requires -tags verif in panicparse).
type Event struct {
	Before, After string
	Line          []byte
	Consumed      bool
	Err           error
}

// Scripted delivers Data according to Chunks.
type Scripted struct {
	Data   []byte
	Chunks []int // size of each Read; 0 = zero-length read; exhausted => Rest
	Rest   int   // chunk size once Chunks is exhausted; 0 = everything
	// Final is returned once all data was delivered (default io.EOF).
	Final error
	// FinalWithData returns Final together with the last data bytes.
	FinalWithData bool
	// Then, if non-nil, is what a reader whose failure was a one-shot (a deadline, EINTR) delivers to whoever reads
	// on after Final was returned once; then io.EOF.
	Then    []byte
	thenPos int

	// OnRead is called at the entry of every Read (the point where a real
	// source could block), with the number of bytes delivered so far.
	OnRead func(call, delivered int)

	pos   int
	ci    int
	Calls int
	// ReadsAfterEnd counts Read calls made after Final was returned.
	ReadsAfterEnd int
	ended         bool
	MaxP          int
}

// Read implements io.Reader.
func (s *Scripted) Read(p []byte) (int, error) {
	if s.OnRead != nil {
		s.OnRead(s.Calls, s.pos)
	}
	s.Calls++
	fin := s.Final
	if fin == nil {
		fin = io.EOF
	}
	if s.ended {
		s.ReadsAfterEnd++
		if s.Then != nil {
			// the failure was a one-shot: the source goes on
			if s.thenPos < len(s.Then) {
				n := copy(p, s.Then[s.thenPos:])
				s.thenPos += n
				return n, nil
			}
			return 0, io.EOF
		}
		return 0, fin
	}
	if len(p) > s.MaxP {
		s.MaxP = len(p)
	}
	if s.pos >= len(s.Data) {
		s.ended = true
		return 0, fin
	}
	n := s.Rest
	if s.ci < len(s.Chunks) {
		n = s.Chunks[s.ci]
		s.ci++
		if n == 0 {
			return 0, nil
		}
	}
	if n <= 0 || n > len(s.Data)-s.pos {
		n = len(s.Data) - s.pos
	}
	if n > len(p) {
		n = len(p)
	}
	copy(p, s.Data[s.pos:s.pos+n])
	s.pos += n
	if s.pos >= len(s.Data) && s.FinalWithData {
		s.ended = true
		return n, fin
	}
	return n, nil
}

// Remaining returns the bytes not yet delivered.
func (s *Scripted) Remaining() []byte { return s.Data[s.pos:] }

// Delivered returns the number of bytes delivered.
func (s *Scripted) Delivered() int { return s.pos }

// Chain implements the documented resume protocol
// (in = io.MultiReader(bytes.NewReader(suffix), in)) with accounting: it can
// tell which bytes it still holds, and it carries the scan-hook trace.
type Chain struct {
	pend [][]byte
	Src  *Scripted
	// Trace, if non-nil, receives scan hook events.
	Trace *[]Event
}

// Read reads from the pending remainders first (like io.MultiReader: one
// source per call), then from the scripted source.
func (c *Chain) Read(p []byte) (int, error) {
	for len(c.pend) > 0 {
		if len(c.pend[0]) == 0 {
			c.pend = c.pend[1:]
			continue
		}
		n := copy(p, c.pend[0])
		c.pend[0] = c.pend[0][n:]
		return n, nil
	}
	return c.Src.Read(p)
}

// Unread puts a returned remainder back in front of the unread input.
func (c *Chain) Unread(suffix []byte) {
	if len(suffix) == 0 {
		return
	}
	c.pend = append([][]byte{append([]byte(nil), suffix...)}, c.pend...)
}

// Remaining returns every byte the chain still holds, in order.
func (c *Chain) Remaining() []byte {
	var b bytes.Buffer
	for _, p := range c.pend {
		b.Write(p)
	}
	b.Write(c.Src.Remaining())
	return b.Bytes()
}

// VerifScanTrace implements stack.VerifScanTracer.
func (c *Chain) VerifScanTrace(before, after string, line []byte, consumed bool, err error) {
	if c.Trace != nil {
		*c.Trace = append(*c.Trace, Event{Before: before, After: after, Line: append([]byte(nil), line...), Consumed: consumed, Err: err})
	}
}

// Traced wraps any reader and carries the scan-hook trace.
type Traced struct {
	R     io.Reader
	Trace []Event
}

// Read implements io.Reader.
func (t *Traced) Read(p []byte) (int, error) { return t.R.Read(p) }

// VerifScanTrace implements stack.VerifScanTracer.
func (t *Traced) VerifScanTrace(before, after string, line []byte, consumed bool, err error) {
	t.Trace = append(t.Trace, Event{Before: before, After: after, Line: append([]byte(nil), line...), Consumed: consumed, Err: err})
}

// ErrWrite is the failure injected by Writer.
var ErrWrite = errors.New("verif: injected write failure")

// Writer records what it receives and can fail at the k-th Write.
type Writer struct {
	bytes.Buffer
	Writes int
	FailAt int // 1-based; 0 = never
}

// Write implements io.Writer.
func (w *Writer) Write(p []byte) (int, error) {
	w.Writes++
	if w.FailAt != 0 && w.Writes >= w.FailAt {
		return 0, ErrWrite
	}
	return w.Buffer.Write(p)
}
