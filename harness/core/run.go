package core

import (
	"bufio"
	"encoding/json"
	"fmt"
	"os"
	"path/filepath"
	"runtime/debug"
	"sort"
	"strconv"
	"strings"
	"sync"
	"time"
)

// Root returns the /verif directory (VERIF_ROOT overrides).
func Root() string {
	if r := os.Getenv("VERIF_ROOT"); r != "" {
		return r
	}
	return "/verif"
}

// Repo returns the panicparse tree under test.
func Repo() string {
	if r := os.Getenv("VERIF_REPO"); r != "" {
		return r
	}
	return "/repo"
}

// WorkDir returns a scratch directory under .work, created on demand.
func WorkDir(parts ...string) string {
	p := filepath.Join(append([]string{Root(), ".work"}, parts...)...)
	_ = os.MkdirAll(p, 0o755)
	return p
}

// Run is the bookkeeping of one check execution.
type Run struct {
	Prop  string
	Tier  string
	Seed  int64
	Level string
	// ReplayMode: violations are printed, nothing is written, known findings are not filtered.
	ReplayMode bool
	// Sink, if set, receives violations instead (child processes forward them to the parent).
	Sink func(key, what, kind string, cs any)

	mu          sync.Mutex
	start       time.Time
	evals       int64
	distinct    map[uint64]struct{}
	distinctAdd int64
	samples     []any
	maxSamples  int
	counters    map[string]int64
	extra       map[string]any
	sets        map[string]map[string]struct{}
	violations  int
	vioKeys     map[string]int
	known       map[string]string
	knownHit    map[string]int
	inconcl     []string
	broken      []string
	rule        string
	assume      []string
	exhaustive  *bool
	replayN     int
	vioLines    []string
}

// NewRun creates the bookkeeping for property prop.
func NewRun(prop, tier, level string) *Run {
	seed := int64(1)
	if s := os.Getenv("VERIF_SEED"); s != "" {
		if v, err := strconv.ParseInt(s, 10, 64); err == nil {
			seed = v
		}
	}
	r := &Run{
		Prop: prop, Tier: tier, Seed: seed, Level: level,
		start:      time.Now(),
		distinct:   map[uint64]struct{}{},
		counters:   map[string]int64{},
		extra:      map[string]any{},
		sets:       map[string]map[string]struct{}{},
		vioKeys:    map[string]int{},
		known:      map[string]string{},
		knownHit:   map[string]int{},
		maxSamples: 4,
	}
	r.loadKnown()
	return r
}

func (r *Run) loadKnown() {
	f, err := os.Open(filepath.Join(Root(), "KNOWN_FINDINGS.txt"))
	if err != nil {
		return
	}
	defer f.Close()
	sc := bufio.NewScanner(f)
	sc.Buffer(make([]byte, 1<<20), 1<<20)
	for sc.Scan() {
		line := strings.TrimSpace(sc.Text())
		if !strings.HasPrefix(line, "known:") {
			continue
		}
		fields := strings.Fields(line[len("known:"):])
		if len(fields) < 2 || fields[0] != "property="+r.Prop || !strings.HasPrefix(fields[1], "key=") {
			continue
		}
		r.known[strings.TrimPrefix(fields[1], "key=")] = strings.Join(fields[2:], " ")
	}
}

// Quick reports whether this is the quick tier.
func (r *Run) Quick() bool { return r.Tier != "thorough" }

// N picks a size by tier.
func (r *Run) N(quick, thorough int) int {
	if r.Quick() {
		return quick
	}
	return thorough
}

// Rule states how cases are generated and what makes one non-trivial.
func (r *Run) Rule(s string) { r.rule = s }

// Assume records an assumption of the check.
func (r *Run) Assume(s ...string) { r.assume = append(r.assume, s...) }

// Exhaustive records that a finite sub-space was enumerated completely.
func (r *Run) Exhaustive(b bool) { r.mu.Lock(); r.exhaustive = &b; r.mu.Unlock() }

// Eval counts executions.
func (r *Run) Eval(n int) { r.mu.Lock(); r.evals += int64(n); r.mu.Unlock() }

// Distinct records a non-trivial case by hash.
func (r *Run) Distinct(h uint64) { r.mu.Lock(); r.distinct[h] = struct{}{}; r.mu.Unlock() }

// DistinctN adds n cases that are distinct by construction (enumerations).
func (r *Run) DistinctN(n int) { r.mu.Lock(); r.distinctAdd += int64(n); r.mu.Unlock() }

// Sample keeps a few cases for the evidence file.
func (r *Run) Sample(v any) {
	r.mu.Lock()
	if len(r.samples) < r.maxSamples {
		r.samples = append(r.samples, v)
	}
	r.mu.Unlock()
}

// Count adds to a named coverage counter.
func (r *Run) Count(key string, n int) { r.mu.Lock(); r.counters[key] += int64(n); r.mu.Unlock() }

// Counters returns a copy of all named counters.
func (r *Run) Counters() map[string]int64 {
	r.mu.Lock()
	defer r.mu.Unlock()
	out := map[string]int64{}
	for k, v := range r.counters {
		out[k] = v
	}
	return out
}

// Marks returns the elements of a coverage set.
func (r *Run) Marks(set string) []string {
	r.mu.Lock()
	defer r.mu.Unlock()
	var out []string
	for e := range r.sets[set] {
		out = append(out, e)
	}
	return out
}

// Counter reads a named counter.
func (r *Run) Counter(key string) int64 { r.mu.Lock(); defer r.mu.Unlock(); return r.counters[key] }

// Mark adds an element to a named coverage set (e.g. transitions observed).
func (r *Run) Mark(set, elem string) {
	r.mu.Lock()
	m := r.sets[set]
	if m == nil {
		m = map[string]struct{}{}
		r.sets[set] = m
	}
	m[elem] = struct{}{}
	r.mu.Unlock()
}

// Marked reports the size of a coverage set.
func (r *Run) Marked(set string) int { r.mu.Lock(); defer r.mu.Unlock(); return len(r.sets[set]) }

// HasMark tells whether an element was marked.
func (r *Run) HasMark(set, elem string) bool {
	r.mu.Lock()
	defer r.mu.Unlock()
	_, ok := r.sets[set][elem]
	return ok
}

// Set stores an extra coverage key.
func (r *Run) Set(key string, v any) { r.mu.Lock(); r.extra[key] = v; r.mu.Unlock() }

// Replay is what a violation writes to disk.
type Replay struct {
	Property string          `json:"property"`
	Kind     string          `json:"kind"`
	Key      string          `json:"key"`
	What     string          `json:"what"`
	Tier     string          `json:"tier"`
	Seed     int64           `json:"seed"`
	Case     json.RawMessage `json:"case"`
}

// Violation reports a refuting observation. key identifies the failing
// site/history class (used to match KNOWN_FINDINGS.txt); kind + cs allow the
// case to be re-executed by `check <ID> --replay <file>`.
func (r *Run) Violation(key, what, kind string, cs any) {
	r.mu.Lock()
	defer r.mu.Unlock()
	if r.Sink != nil {
		r.violations++
		r.Sink(key, what, kind, cs)
		return
	}
	if r.ReplayMode {
		r.violations++
		fmt.Printf("VIOLATION-REPLAYED property=%s key=%s %s\n", r.Prop, key, trunc(what, 2000))
		return
	}
	if desc, ok := r.known[key]; ok {
		if r.knownHit[key] == 0 {
			fmt.Printf("KNOWN-FINDING: property=%s key=%s %s\n", r.Prop, key, desc)
		}
		r.knownHit[key]++
		return
	}
	r.violations++
	r.vioKeys[key]++
	if r.vioKeys[key] > 3 || r.replayN >= 12 {
		return
	}
	r.replayN++
	raw, err := json.Marshal(cs)
	if err != nil {
		raw, _ = json.Marshal(fmt.Sprintf("%v", cs))
	}
	dir := filepath.Join(Root(), "replays", r.Prop)
	if d := os.Getenv("VERIF_SCRATCH_OUT"); d != "" {
		dir = filepath.Join(d, "replays", r.Prop)
	}
	_ = os.MkdirAll(dir, 0o755)
	p := filepath.Join(dir, fmt.Sprintf("%s-s%d-%02d-%s.json", r.Tier, r.Seed, r.replayN, sanitize(key)))
	b, _ := json.MarshalIndent(Replay{Property: r.Prop, Kind: kind, Key: key, What: what, Tier: r.Tier, Seed: r.Seed, Case: raw}, "", " ")
	_ = os.WriteFile(p, b, 0o644)
	line := fmt.Sprintf("VIOLATION property=%s replay=%s", r.Prop, p)
	r.vioLines = append(r.vioLines, line)
	fmt.Println(line)
	fmt.Printf("  key=%s %s\n", key, trunc(what, 600))
}

func sanitize(s string) string {
	out := []byte(s)
	for i, c := range out {
		if !(c >= 'a' && c <= 'z' || c >= 'A' && c <= 'Z' || c >= '0' && c <= '9' || c == '-' || c == '_') {
			out[i] = '_'
		}
	}
	if len(out) > 40 {
		out = out[:40]
	}
	return string(out)
}

func trunc(s string, n int) string {
	if len(s) > n {
		return s[:n] + "..."
	}
	return s
}

// Trunc truncates a string for samples.
func Trunc(s string, n int) string { return trunc(s, n) }

// Violations returns the number of unlisted violations so far.
func (r *Run) Violations() int { r.mu.Lock(); defer r.mu.Unlock(); return r.violations }

// Inconclusive records a verdict that is neither held nor violated.
func (r *Run) Inconclusive(what string) {
	r.mu.Lock()
	r.inconcl = append(r.inconcl, what)
	r.mu.Unlock()
	fmt.Printf("INCONCLUSIVE property=%s %s\n", r.Prop, what)
}

// Broken records that the check itself could not do its job (no events,
// build failure, control that did not fire).
func (r *Run) Broken(what string) {
	r.mu.Lock()
	r.broken = append(r.broken, what)
	r.mu.Unlock()
	fmt.Printf("BROKEN-CHECK property=%s %s\n", r.Prop, what)
}

// Finish writes the evidence file and exits with the verdict.
func (r *Run) Finish() {
	r.mu.Lock()
	cov := map[string]any{}
	for k, v := range r.extra {
		cov[k] = v
	}
	for k, v := range r.counters {
		cov[k] = v
	}
	for k, m := range r.sets {
		var l []string
		for e := range m {
			l = append(l, e)
		}
		sort.Strings(l)
		cov[k+"_count"] = len(l)
		name := k
		switch k {
		case "states", "transitions", "programs", "obligations", "discharged", "evaluations", "distinct_nontrivial":
			// integer keys of the evidence schema: the count goes there, the list beside it
			cov[k] = len(l)
			name = k + "_seen"
		}
		if len(l) <= 1200 {
			cov[name] = l
		}
	}
	nd := int64(len(r.distinct)) + r.distinctAdd
	cov["evaluations"] = r.evals
	cov["distinct_nontrivial"] = nd
	cov["rule"] = r.rule
	if len(r.samples) == 0 {
		r.samples = []any{}
	}
	cov["samples"] = r.samples
	if r.exhaustive != nil {
		cov["exhaustive"] = *r.exhaustive
	}
	if len(r.inconcl) > 0 {
		cov["inconclusive"] = r.inconcl
	}
	kh := map[string]int{}
	for k, v := range r.knownHit {
		kh[k] = v
	}
	cov["known_findings_hit"] = kh
	if len(r.vioKeys) > 0 {
		cov["violation_keys"] = r.vioKeys
	}
	ev := map[string]any{
		"property_id": r.Prop,
		"tier":        r.Tier,
		"seed":        r.Seed,
		"level":       r.Level,
		"coverage":    cov,
		"assumptions": r.assume,
		"wall_s":      time.Since(r.start).Seconds(),
		"violations":  r.violations,
	}
	if r.assume == nil {
		ev["assumptions"] = []string{}
	}
	vio, broken := r.violations, len(r.broken)
	if r.evals == 0 || nd < 2 {
		fmt.Printf("BROKEN-CHECK property=%s observed too little (evaluations=%d distinct=%d)\n", r.Prop, r.evals, nd)
		broken++
	}
	r.mu.Unlock()
	b, err := json.MarshalIndent(ev, "", " ")
	if err != nil {
		fmt.Printf("BROKEN-CHECK property=%s evidence not serialisable: %v\n", r.Prop, err)
		os.Exit(2)
	}
	dir := filepath.Join(Root(), "evidence")
	if d := os.Getenv("VERIF_SCRATCH_OUT"); d != "" {
		// validation runs against scratch copies must not overwrite the evidence of the real tree
		dir = filepath.Join(d, "evidence")
	}
	_ = os.MkdirAll(dir, 0o755)
	if err := os.WriteFile(filepath.Join(dir, r.Prop+".json"), append(b, '\n'), 0o644); err != nil {
		fmt.Printf("BROKEN-CHECK property=%s cannot write evidence: %v\n", r.Prop, err)
		os.Exit(2)
	}
	fmt.Printf("SUMMARY property=%s tier=%s seed=%d evaluations=%d distinct_nontrivial=%d violations=%d known_hits=%d inconclusive=%d wall=%.1fs\n",
		r.Prop, r.Tier, r.Seed, r.evals, nd, vio, len(r.knownHit), len(r.inconcl), time.Since(r.start).Seconds())
	switch {
	case vio > 0:
		os.Exit(1)
	case broken > 0:
		os.Exit(2)
	}
	os.Exit(0)
}

// Parallel runs fn(i) for i in [0,n) on w workers.
func Parallel(n, w int, fn func(i int)) {
	if w < 1 {
		w = 1
	}
	if w > n {
		w = n
	}
	if w <= 1 {
		for i := 0; i < n; i++ {
			fn(i)
		}
		return
	}
	var wg sync.WaitGroup
	var mu sync.Mutex
	next := 0
	for k := 0; k < w; k++ {
		wg.Add(1)
		go func() {
			defer wg.Done()
			defer func() {
				if p := recover(); p != nil {
					// a bug of the harness itself: never a verdict about the code under test
					fmt.Printf("BROKEN-CHECK harness panic: %v\n%s\n", p, debug.Stack())
					os.Exit(2)
				}
			}()
			for {
				mu.Lock()
				i := next
				next++
				mu.Unlock()
				if i >= n {
					return
				}
				fn(i)
			}
		}()
	}
	wg.Wait()
}
