// Package core holds what every check shares: deterministic randomness, run
// bookkeeping (evidence, violations, known findings) and small helpers.
package core

import "math/bits"

// Rand is a SplitMix64 stream. All random choices of the checks come from
// streams derived from (VERIF_SEED, property, case index).
type Rand struct{ s uint64 }

// NewRand derives a stream from a seed and any number of sub-stream ids.
func NewRand(seed int64, ids ...uint64) *Rand {
	r := &Rand{s: uint64(seed)*0x9E3779B97F4A7C15 + 0x1234567}
	for _, id := range ids {
		r.s ^= mix(id + 0x632BE59BD9B4E019)
		r.s = mix(r.s)
	}
	return r
}

func mix(z uint64) uint64 {
	z = (z ^ (z >> 30)) * 0xBF58476D1CE4E5B9
	z = (z ^ (z >> 27)) * 0x94D049BB133111EB
	return z ^ (z >> 31)
}

// U64 returns the next value.
func (r *Rand) U64() uint64 {
	r.s += 0x9E3779B97F4A7C15
	return mix(r.s)
}

// Intn returns a value in [0,n).
func (r *Rand) Intn(n int) int {
	if n <= 0 {
		return 0
	}
	hi, _ := bits.Mul64(r.U64(), uint64(n))
	return int(hi)
}

// Range returns a value in [lo,hi].
func (r *Rand) Range(lo, hi int) int {
	if hi <= lo {
		return lo
	}
	return lo + r.Intn(hi-lo+1)
}

// Bool returns true with probability 1/2.
func (r *Rand) Bool() bool { return r.U64()&1 == 1 }

// Chance returns true with probability num/den.
func (r *Rand) Chance(num, den int) bool { return r.Intn(den) < num }

// Pick returns one of the strings.
func (r *Rand) Pick(s []string) string { return s[r.Intn(len(s))] }

// Perm returns a permutation of [0,n).
func (r *Rand) Perm(n int) []int {
	p := make([]int, n)
	for i := range p {
		p[i] = i
	}
	for i := n - 1; i > 0; i-- {
		j := r.Intn(i + 1)
		p[i], p[j] = p[j], p[i]
	}
	return p
}

// Hash64 is FNV-1a, used to count distinct cases.
func Hash64(b []byte) uint64 {
	h := uint64(14695981039346656037)
	for _, c := range b {
		h ^= uint64(c)
		h *= 1099511628211
	}
	return h
}

// HashStr hashes a string.
func HashStr(s string) uint64 { return Hash64([]byte(s)) }
