package main

import (
	"bytes"
	"encoding/json"
	"fmt"
	"io"
	"strings"

	"github.com/maruel/panicparse/v2/stack"

	"verifharness/core"
	"verifharness/gen"
	"verifharness/mon"
	"verifharness/sched"
)

func init() {
	checks["C10"] = check{level: "fault_enumeration", run: runC10, replay: replayC10}
}

// cutModes: how the end is signalled at the cut.
var cutModes = []string{"eof", "err-after", "err-with-data", "temporary-err-after", "err-once-then-the-rest"}

type c10Case struct {
	Stream *gen.Stream `json:"stream"`
	Cut    int         `json:"cut"`
	Mode   int         `json:"mode"`
}

// segment geometry of a stream.
type segGeo struct {
	start, end int
	seg        *gen.Seg
	// for dumps: offset (absolute) at which goroutine j is complete (all its lines delivered).
	gComplete []int
	// recognition point: before it the delivered part of the dump is indistinguishable from junk.
	recog int
	// race: absolute offsets after each op stack / each creation stack.
	opEnd, createEnd []int
}

func geometry(s *gen.Stream) []segGeo {
	var out []segGeo
	off := 0
	for i := range s.Segs {
		sg := &s.Segs[i]
		g := segGeo{start: off, seg: sg}
		switch {
		case sg.Dump != nil:
			b, spans := sg.Dump.RenderSpans()
			eol := len(sg.Dump.EOL())
			for j := range sg.Dump.Gs {
				var e int
				if j+1 < len(sg.Dump.Gs) {
					e = spans[j+1] - eol // without the blank separator line
				} else {
					e = len(b)
					if sg.Dump.F.TrailBlank {
						e -= eol
					}
				}
				g.gComplete = append(g.gComplete, off+e)
			}
			// first line of the dump
			g.recog = off + bytes.IndexByte(b, '\n') + 1
			if g.recog == off {
				g.recog = off + len(b)
			}
			off += len(b)
		case sg.Race != nil:
			b, oe, ce := sg.Race.RenderSpans()
			for _, e := range oe {
				g.opEnd = append(g.opEnd, off+e)
			}
			for _, e := range ce {
				g.createEnd = append(g.createEnd, off+e)
			}
			// first three lines (separator, warning, first operation header)
			p := 0
			for k := 0; k < 3; k++ {
				n := bytes.IndexByte(b[p:], '\n')
				if n < 0 {
					p = len(b)
					break
				}
				p += n + 1
			}
			g.recog = off + p
			off += len(b)
		default:
			off += len(sg.Text)
		}
		g.end = off
		out = append(out, g)
	}
	return out
}

type c10Base struct {
	in      []byte
	geo     []segGeo
	snaps   []*stack.Snapshot // uncut: one per dump segment, in order
	fwd     []byte            // uncut: bytes forwarded by the prefix writer over the whole resume loop
	dumpSeg []int             // index into geo for each snapshot
}

func c10Prepare(s *gen.Stream) (*c10Base, string) {
	b := &c10Base{in: s.Render(), geo: geometry(s)}
	res := resumeAll(b.in, namingOpts(), nil, 0, true, s.NumDumps()+8)
	if res.Panic != nil || res.FinalErr != io.EOF || len(res.Snaps) != s.NumDumps() {
		return nil, fmt.Sprintf("uncut stream does not parse cleanly: panic=%v err=%v snaps=%d/%d", res.Panic, res.FinalErr, len(res.Snaps), s.NumDumps())
	}
	b.snaps = res.Snaps
	// What the uncut stream forwards: all the text that is not part of a dump (ground truth; the uncut run
	// itself may forward less when it ends on withheld race-header lines - the known finding of C02).
	b.fwd = s.PassThrough()
	for i := range b.geo {
		if b.geo[i].seg.Dump != nil || b.geo[i].seg.Race != nil {
			b.dumpSeg = append(b.dumpSeg, i)
		}
	}
	return b, ""
}

func c10Eval(r *core.Run, base *c10Base, c *c10Case) {
	data := base.in[:c.Cut]
	src := &sched.Scripted{Data: data}
	switch c.Mode {
	case 1:
		src.Final = sched.ErrInjected
	case 2:
		src.Final = sched.ErrInjected
		src.FinalWithData = true
	case 3:
		// a failure that describes itself as temporary (EAGAIN, a deadline) and does not go away
		src.Final = sched.ErrTemporary
	case 4:
		// a one-shot failure (a deadline that is then extended, iotest.TimeoutReader): whoever reads on gets the rest
		// of the stream. The failure is still to be reported, as itself, by the call that met it.
		src.Final = sched.ErrInjected
		src.Then = append([]byte{}, base.in[c.Cut:]...)
	}
	wantErr := src.Final
	res := resumeAllSrc(src, namingOpts(), true, len(base.snaps)+8)
	r.Eval(1)
	report := func(key, what string) {
		r.Violation(key+"/"+cutModes[c.Mode], fmt.Sprintf("cut at %d of %d (%s): %s", c.Cut, len(base.in), cutModes[c.Mode], what), "cut", c)
	}
	if res.Panic != nil {
		report("panic", fmt.Sprintf("panic: %v", res.Panic))
		return
	}
	if res.NoProgress || res.TooMany {
		report("no-progress", "resume loop made no progress / did not end")
		return
	}
	// Error rule.
	if c.Mode == 0 {
		if res.FinalErr == nil {
			report("error", "end of stream but no error/EOF reported")
			return
		}
	} else if res.FinalErr != wantErr {
		report("error", fmt.Sprintf("the reader failed with %q but scanning reported %v", wantErr, res.FinalErr))
		return
	}
	// Goroutine rule.
	if len(res.Snaps) > len(base.snaps) {
		report("extra-snapshot", fmt.Sprintf("%d snapshots from a prefix of a stream that has %d dumps", len(res.Snaps), len(base.snaps)))
		return
	}
	for si, s := range res.Snaps {
		g := &base.geo[base.dumpSeg[si]]
		full := base.snaps[si]
		// The dump is over for the scanner only once the line that ends it has been delivered completely: an
		// unterminated fragment of the next line can still look like a continuation of the last goroutine.
		over := g.end
		if g.seg.Dump != nil {
			if nl := bytes.IndexByte(base.in[g.end:], '\n'); nl >= 0 {
				over = g.end + nl + 1
			} else {
				over = len(base.in) + 1
			}
		}
		if c.Cut >= over {
			if d := mon.DiffSnapshot(full, s, mon.EqOpt{IgnoreNames: true}); d != "" {
				report("complete-dump-differs", fmt.Sprintf("dump %d lies entirely before the cut but differs: %s", si, d))
				return
			}
			continue
		}
		if g.seg.Dump != nil {
			// delivered: goroutines whose own lines all arrived; complete: those that are also final (for the last
			// goroutine of the dump: once the line ending the dump is in - until then a fragment of the next line
			// can still be taken for a continuation, or even for the header of one more goroutine).
			complete, delivered := 0, 0
			for j, e := range g.gComplete {
				if c.Cut >= e {
					delivered++
				}
				if j == len(g.gComplete)-1 {
					e = over
				}
				if c.Cut >= e {
					complete++
				}
			}
			if len(s.Goroutines) < complete {
				report("goroutine-missing", fmt.Sprintf("dump %d: %d goroutines lie entirely before the cut, %d parsed", si, complete, len(s.Goroutines)))
				return
			}
			if len(s.Goroutines) > delivered+1 {
				report("goroutine-extra", fmt.Sprintf("dump %d: %d goroutines parsed, only %d delivered + 1 partial possible", si, len(s.Goroutines), delivered))
				return
			}
			for j := 0; j < len(s.Goroutines) && j < len(full.Goroutines); j++ {
				if j >= complete {
					break // the goroutine being read at the cut may be partial
				}
				if d := mon.DiffGoroutine(fmt.Sprintf("dump %d G[%d]", si, j), full.Goroutines[j], s.Goroutines[j], mon.EqOpt{IgnoreNames: true}); d != "" {
					report("goroutine-differs", "goroutine before the cut differs from the uncut parse: "+d)
					return
				}
			}
		} else {
			// race report: operation j's stack is final once its block is complete.
			for j, e := range g.opEnd {
				if c.Cut < e || j >= len(s.Goroutines) {
					continue
				}
				a, b := full.Goroutines[j], s.Goroutines[j]
				if a.ID != b.ID || a.RaceAddr != b.RaceAddr || a.RaceWrite != b.RaceWrite {
					report("race-op-differs", fmt.Sprintf("operation %d before the cut differs", j))
					return
				}
				ga, gb := *a, *b
				ga.CreatedBy, gb.CreatedBy = stack.Stack{}, stack.Stack{}
				ga.State, gb.State = "", ""
				if d := mon.DiffGoroutine(fmt.Sprintf("race %d G[%d]", si, j), &ga, &gb, mon.EqOpt{IgnoreNames: true}); d != "" {
					report("race-op-differs", d)
					return
				}
			}
			complete := 0
			for _, e := range g.opEnd {
				if c.Cut >= e {
					complete++
				}
			}
			if len(s.Goroutines) < complete || len(s.Goroutines) > complete+1 {
				report("race-op-count", fmt.Sprintf("race %d: %d operations complete before the cut, %d goroutines parsed", si, complete, len(s.Goroutines)))
				return
			}
		}
	}
	// every dump entirely before the cut must have produced a snapshot
	nbefore := 0
	for _, gi := range base.dumpSeg {
		if base.geo[gi].end <= c.Cut {
			nbefore++
		}
	}
	if len(res.Snaps) < nbefore {
		report("snapshot-missing", fmt.Sprintf("%d dumps lie entirely before the cut, %d snapshots", nbefore, len(res.Snaps)))
		return
	}
	// Forwarded bytes rule.
	var fwd []byte
	for _, cl := range res.Calls {
		fwd = append(fwd, cl.Prefix...)
	}
	if bytes.HasPrefix(base.fwd, fwd) {
		return
	}
	// allowed exception: the cut lies inside the recognition zone of a dump, the delivered part of it is junk.
	var textBefore []byte
	for gi := range base.geo {
		g := &base.geo[gi]
		if g.seg.Dump == nil && g.seg.Race == nil {
			if c.Cut >= g.end {
				textBefore = append(textBefore, string(g.seg.Text)...)
			}
			continue
		}
		if c.Cut > g.start && c.Cut < g.recog {
			frag := base.in[g.start:c.Cut]
			if bytes.HasPrefix(fwd, textBefore) && bytes.HasPrefix(frag, fwd[len(textBefore):]) {
				r.Count("cuts_in_recognition_zone", 1)
				return
			}
		}
	}
	i := firstDiff(fwd, base.fwd)
	report("forwarded-not-prefix", fmt.Sprintf("forwarded bytes are not a prefix of the uncut run's: differ at %d: %q vs %q", i, b2s(tailFrom(fwd, i), 80), b2s(tailFrom(base.fwd, i), 80)))
}

func c10Stream(r *core.Run, i int) *gen.Stream {
	rr := core.NewRand(r.Seed, 10, uint64(i))
	cfg := &gen.StreamCfg{MaxDumps: 2, RaceChance: 3, NoFinalEOLChance: 2,
		Junk:    gen.JunkCfg{Separators: i%3 == 0, Binary: true},
		DumpCfg: gen.Cfg{MaxG: 3, MaxFrames: 3, MaxDepth: 2, MaxArgs: 3}}
	for {
		s := gen.GenStream(rr, cfg)
		if s.NumDumps() > 0 && len(s.Render()) < 4000 {
			return s
		}
	}
}

func runC10(r *core.Run) {
	r.Rule("for each generated stream (junk + 1..2 goroutine dumps / race reports, 0.2-4 KB): EVERY byte offset as the cut x up to 5 ways of signalling it (EOF; sticky reader error after the data; reader error returned together with the last data; at every 7th offset a sticky error that calls itself temporary; at every 5th a one-shot error after which the source would deliver the rest); lines longer than the 16 KiB line buffer before the first dump and at the end of the stream, cut at the buffer multiples; " +
		"the resume protocol is driven to its first error; oracle: no panic, reader error reported as exactly that value, EOF as EOF or a parse error, goroutines entirely before the cut equal (names aside) to the uncut parse, at most one partial goroutine, forwarded bytes a prefix of the uncut run's " +
		"real tracebacks of generated programs with their sources on disk are cut at every offset too, scanned with path guessing and source analysis on; " +
		"(or, when the cut lies before a dump's recognition point, the delivered fragment itself, as C02 demands). distinct = (stream, offset, mode); non-trivial = cut inside a dump")
	r.Assume("a cut inside the first line of a dump (first three lines of a race report) leaves text that is not a dump; it must be passed through (C02), which a literal reading of C10's last sentence would flag")
	n := r.N(60, 5000)
	core.Parallel(n, workers(), func(i int) {
		s := c10Stream(r, i)
		base, why := c10Prepare(s)
		if base == nil {
			r.Violation("uncut", why, "cut", &c10Case{Stream: s, Cut: -1})
			return
		}
		inDump := 0
		for cut := 0; cut <= len(base.in); cut++ {
			for mode := 0; mode < 5; mode++ {
				if (mode == 3 && cut%7 != 0) || (mode == 4 && cut%5 != 0) {
					continue // the fourth way of signalling at every seventh offset, the fifth at every fifth
				}
				c10Eval(r, base, &c10Case{Stream: s, Cut: cut, Mode: mode})
			}
			for _, gi := range base.dumpSeg {
				if cut > base.geo[gi].start && cut < base.geo[gi].end {
					inDump++
				}
			}
		}
		r.DistinctN(3 * inDump)
		r.Count("offsets_enumerated", len(base.in)+1)
		r.Count("inputs", 1)
		if i < 2 {
			r.Sample(map[string]any{"stream": b2s(base.in, 1000), "offsets": len(base.in) + 1, "modes": cutModes})
		}
	})
	r.Exhaustive(true)
	c10LongLines(r, r.N(40, 1500))
	c10Sources(r)
	webCutRounds(r, r.N(2, 10))
	if !r.Quick() {
		straceFaults(r, 6)
	}
}

// c10LongLines: a line longer than the scanner's 16 KiB line buffer in front of the first dump and another at the
// end of the stream (such a line is assembled over several refills); cuts inside them - at the buffer multiples and at
// a few other offsets - in all five ways of signalling.
func c10LongLines(r *core.Run, n int) {
	core.Parallel(n, workers(), func(i int) {
		rr := core.NewRand(r.Seed, 104, uint64(i))
		s := c10Stream(r, 500000+i)
		if s.Segs[0].Dump != nil || s.Segs[0].Race != nil || s.Segs[len(s.Segs)-1].Dump != nil || s.Segs[len(s.Segs)-1].Race != nil {
			return
		}
		long := func() string {
			l := []int{16384 + rr.Intn(3) - 1, 20000 + rr.Intn(9000), 32768 + rr.Intn(3) - 1, 40000 + rr.Intn(30000)}[rr.Intn(4)]
			return strings.Repeat("z", l)
		}
		l0, l1 := long(), long()
		s.Segs[0].Text = gen.BinStr(l0 + "\n" + string(s.Segs[0].Text))
		s.Segs[len(s.Segs)-1].Text = gen.BinStr(string(s.Segs[len(s.Segs)-1].Text) + l1 + []string{"", "\n"}[rr.Intn(2)])
		base, why := c10Prepare(s)
		if base == nil {
			r.Violation("uncut", why, "cut", &c10Case{Stream: s, Cut: -1})
			return
		}
		var cuts []int
		for _, st := range []struct{ start, l int }{{0, len(l0)}, {len(base.in) - len(l1) - 1, len(l1)}} {
			for _, d := range []int{1, 16383, 16384, 16385, 32767, 32768, 32769, 49152, st.l - 1, st.l, st.l + 1} {
				if d <= st.l+1 {
					cuts = append(cuts, st.start+d)
				}
			}
			for k := 0; k < 6; k++ {
				cuts = append(cuts, st.start+rr.Intn(st.l+1))
			}
		}
		for _, cut := range cuts {
			if cut < 0 || cut > len(base.in) {
				continue
			}
			for mode := 0; mode < 5; mode++ {
				c10Eval(r, base, &c10Case{Stream: s, Cut: cut, Mode: mode})
				r.Count("cuts_inside_lines_longer_than_the_line_buffer", 1)
			}
		}
	})
}

func replayC10(r *core.Run, kind string, raw json.RawMessage) {
	var c c10Case
	if err := json.Unmarshal(raw, &c); err != nil {
		r.Broken(err.Error())
		return
	}
	base, why := c10Prepare(c.Stream)
	if base == nil {
		r.Violation("uncut", why, "cut", &c)
		return
	}
	if c.Cut >= 0 {
		c10Eval(r, base, &c)
	}
}
