package main

import (
	"fmt"

	"github.com/maruel/panicparse/v2/stack"

	"verifharness/core"
	"verifharness/gen"
)

// c13Pair: black box on "incomparability is transitive". Buckets with the same frames (function, last directory and
// file name, line), state and lock flag tie under the signature comparison; here they differ in what that comparison
// does not look at - creator, argument values, the directories above the last one, the elision flag - and in size.
// Two buckets alone, aggregated in both arrival orders, tell how the comparison behind the order relates them: the
// same presented order twice = one is strictly before the other; arrival order twice = they are tied.
// A strict weak order then demands (1) "tied" is transitive over every triple and (2) every larger aggregation
// presents strictly ordered buckets in that order, whatever the arrival order.
type pairCase struct {
	Seed  int64 `json:"seed"`
	Trial int   `json:"trial"`
}

type pairGroup struct {
	creator string
	arg     uint64
	path    string
	elided  bool
	n       int
}

func (g *pairGroup) key() string {
	return fmt.Sprintf("%s|%d|%s|%v", g.creator, g.arg, g.path, g.elided)
}

func c13PairEval(r *core.Run, c *pairCase) {
	rr := core.NewRand(c.Seed, 132, uint64(c.Trial))
	creators := []string{"main.spawnA", "main.spawnB"}
	args := []uint64{1, 2}
	paths := []string{"/src/app/worker.go", "/other/checkout/app/worker.go"}
	var groups []pairGroup
	seen := map[string]bool{}
	ng := 3 + rr.Intn(3)
	for tries := 0; len(groups) < ng && tries < 100; tries++ {
		g := pairGroup{creator: creators[rr.Intn(2)], arg: args[rr.Intn(2)], path: paths[0], n: 1 + rr.Intn(3)}
		switch c.Trial % 3 {
		case 1:
			g.path = paths[rr.Intn(2)]
		case 2:
			g.elided = rr.Bool()
		}
		if !seen[g.key()] {
			seen[g.key()] = true
			groups = append(groups, g)
		}
	}
	crash := &stack.Signature{State: "running", Stack: stack.Stack{Calls: []stack.Call{gen.MkCall("main.main", "/src/app/main.go", 5, stack.GoMod, stack.Args{})}}}
	member := func(g *pairGroup, sleep int) *stack.Signature {
		return &stack.Signature{State: "chan receive", SleepMin: sleep, SleepMax: sleep,
			Stack:     stack.Stack{Elided: g.elided, Calls: []stack.Call{gen.MkCall("main.worker", g.path, 20, stack.GoMod, stack.Args{Values: []stack.Arg{{Value: g.arg}}})}},
			CreatedBy: stack.Stack{Calls: []stack.Call{gen.MkCall(g.creator, "/src/app/main.go", 30, stack.GoMod, stack.Args{})}}}
	}
	// present returns the keys of the buckets (the crashing one left out) in presented order
	present := func(gs []int) ([]string, bool) {
		sigs := []*stack.Signature{crash}
		for _, gi := range gs {
			sigs = append(sigs, member(&groups[gi], 0))
		}
		s := gen.MkSnapshot(sigs)
		var a *stack.Aggregated
		var panicked any
		func() {
			defer func() { panicked = recover() }()
			a = s.Aggregate(stack.ExactFlags)
		}()
		r.Eval(1)
		if panicked != nil {
			r.Violation("aggregate-panic", fmt.Sprint(panicked), "pair", c)
			return nil, false
		}
		var out []string
		for _, b := range a.Buckets {
			if b.First || len(b.CreatedBy.Calls) == 0 || len(b.Stack.Calls) == 0 || len(b.Stack.Calls[0].Args.Values) == 0 {
				continue
			}
			g := pairGroup{creator: b.CreatedBy.Calls[0].Func.Complete, arg: b.Stack.Calls[0].Args.Values[0].Value, path: b.Stack.Calls[0].RemoteSrcPath, elided: b.Stack.Elided}
			out = append(out, g.key())
		}
		return out, true
	}
	expand := func(order []int) []int { // group indices -> one entry per member, members of a group together
		var out []int
		for _, gi := range order {
			for k := 0; k < groups[gi].n; k++ {
				out = append(out, gi)
			}
		}
		return out
	}
	n := len(groups)
	// rel[i][j]: +1 = i strictly before j, -1 = j strictly before i, 0 = tied
	rel := make([][]int, n)
	for i := range rel {
		rel[i] = make([]int, n)
	}
	for i := 0; i < n; i++ {
		for j := i + 1; j < n; j++ {
			ab, ok1 := present(expand([]int{i, j}))
			ba, ok2 := present(expand([]int{j, i}))
			if !ok1 || !ok2 {
				return
			}
			if len(ab) != 2 || len(ba) != 2 {
				return // the two groups did not form two buckets: not this phase's business (C05)
			}
			ki := groups[i].key()
			switch {
			case ab[0] == ba[0] && ab[0] == ki:
				rel[i][j], rel[j][i] = 1, -1
			case ab[0] == ba[0]:
				rel[i][j], rel[j][i] = -1, 1
			}
		}
	}
	desc := func() string {
		s := ""
		for i := range groups {
			s += fmt.Sprintf(" #%d{%s x%d}", i, groups[i].key(), groups[i].n)
		}
		return s
	}
	for i := 0; i < n; i++ {
		for j := 0; j < n; j++ {
			for k := 0; k < n; k++ {
				if i != j && j != k && i != k && rel[i][j] == 0 && rel[j][k] == 0 && rel[i][k] != 0 {
					r.Violation("incomparability-not-transitive", fmt.Sprintf("alone, buckets #%d and #%d keep their arrival order (tied), so do #%d and #%d, but #%d and #%d are presented in one order whatever the arrival order (strictly ordered): the comparison behind the order is not a strict weak order; groups:%s", i, j, j, k, i, k, desc()), "pair", c)
					return
				}
			}
		}
	}
	for p := 0; p < 8; p++ {
		order := rr.Perm(n)
		members := expand(order)
		if p%2 == 1 {
			// members of different groups interleaved
			perm := rr.Perm(len(members))
			mixed := make([]int, len(members))
			for x, y := range perm {
				mixed[x] = members[y]
			}
			members = mixed
		}
		got, ok := present(members)
		if !ok {
			return
		}
		pos := map[string]int{}
		for x, k := range got {
			pos[k] = x
		}
		if len(pos) != n {
			return
		}
		for i := 0; i < n; i++ {
			for j := 0; j < n; j++ {
				if rel[i][j] == 1 && pos[groups[i].key()] > pos[groups[j].key()] {
					r.Violation("order-contradicts-pairwise-comparison", fmt.Sprintf("alone, bucket #%d is presented before #%d in both arrival orders; aggregated with the others (arrival %v) it comes after it: presented %v; groups:%s", i, j, members, got, desc()), "pair", c)
					return
				}
			}
		}
	}
}

func c13Pair(r *core.Run) {
	n := r.N(3000, 150000)
	core.Parallel(n, workers(), func(i int) {
		c13PairEval(r, &pairCase{Seed: r.Seed, Trial: i})
	})
	r.DistinctN(n)
	r.Count("pairwise_relation_trials", n)
}
