package main

import (
	"bufio"
	"bytes"
	"encoding/json"
	"fmt"
	"io"
	"os"
	"os/exec"
	"path/filepath"
	"regexp"
	"runtime"
	"runtime/debug"
	"strconv"
	"strings"
	"sync"
	"time"

	"github.com/maruel/panicparse/v2/stack"

	"verifharness/core"
	"verifharness/gen"
	"verifharness/sched"
)

func init() {
	checks["C03"] = check{level: "exploration", run: runC03, replay: replayC03}
	workerMain = c03Worker
}

type c03Case struct {
	Input []byte `json:"input"`
	Opts  string `json:"opts"` // plain | naming | default
	Idx   int    `json:"idx"`
}

type finding struct {
	Key  string  `json:"key"`
	What string  `json:"what"`
	Case c03Case `json:"case"`
}

func optsByName(n string) *stack.Opts {
	switch n {
	case "naming":
		return namingOpts()
	case "default":
		return stack.DefaultOpts()
	}
	return plainOpts()
}

var repoFrameRe = regexp.MustCompile(`github\.com/maruel/panicparse/v2/([A-Za-z0-9_/]+)\.([A-Za-z0-9_().*]+)\(`)

// panicKey names the innermost panicparse function on the panicking stack.
func panicKey(st string) string {
	if m := repoFrameRe.FindStringSubmatch(st); m != nil {
		return "panic:" + m[1] + "." + m[2]
	}
	return "panic:unknown"
}

// pipeline runs everything C03 quantifies over on one input: repeated
// scanning until the stream is exhausted, then every aggregation level and
// both HTML renderings of every snapshot returned.
func pipeline(in []byte, optName string) (key, what string, snaps int) {
	return pipelineHTML(in, optName, true)
}

// pipelineHTML is pipeline with the (expensive) HTML rendering optional.
func pipelineHTML(in []byte, optName string, html bool) (key, what string, snaps int) {
	lines := bytes.Count(in, []byte("\n")) + 1
	res := resumeAll(in, optsByName(optName), nil, 0, false, lines+8)
	if res.Panic != nil {
		return panicKey(res.PanicStack), fmt.Sprintf("ScanSnapshot panicked: %v\n%s", res.Panic, core.Trunc(res.PanicStack, 1500)), 0
	}
	if res.NoProgress || res.TooMany {
		return "no-progress", "repeated scanning made no progress / did not terminate", 0
	}
	if res.Reads > len(in)+2*len(res.Calls)+8 {
		return "reads-superlinear", fmt.Sprintf("%d Read calls for %d bytes in %d scanning calls", res.Reads, len(in), len(res.Calls)), 0
	}
	ev := 0
	for _, c := range res.Calls {
		ev += len(c.Events)
	}
	if ev > lines+len(res.Calls) {
		return "scans-superlinear", fmt.Sprintf("%d line scans for %d lines in %d calls", ev, lines, len(res.Calls)), 0
	}
	for _, s := range res.Snaps {
		if k, w := renderSome(s, html); k != "" {
			return k, w, len(res.Snaps)
		}
	}
	return "", "", len(res.Snaps)
}

func renderAll(s *stack.Snapshot) (key, what string) { return renderSome(s, true) }

func renderSome(s *stack.Snapshot, html bool) (key, what string) {
	defer func() {
		if p := recover(); p != nil {
			st := string(debug.Stack())
			key, what = panicKey(st), fmt.Sprintf("aggregation/rendering panicked: %v\n%s", p, core.Trunc(st, 1500))
		}
	}()
	_ = s.IsRace()
	for _, lvl := range []stack.Similarity{stack.ExactFlags, stack.ExactLines, stack.AnyPointer, stack.AnyValue} {
		a := s.Aggregate(lvl)
		if html && (lvl == stack.AnyPointer || lvl == stack.ExactFlags) {
			if err := a.ToHTML(io.Discard, ""); err != nil {
				return "html-error", fmt.Sprintf("Aggregated.ToHTML: %v", err)
			}
		}
	}
	if !html {
		return "", ""
	}
	if err := s.ToHTML(io.Discard, ""); err != nil {
		return "html-error", fmt.Sprintf("Snapshot.ToHTML: %v", err)
	}
	return "", ""
}

func c03GenCase(seed int64, i int) *c03Case {
	rr := core.NewRand(seed, 3, uint64(i))
	base := gen.MutationBase(rr)
	other := gen.MutationBase(rr)
	n := 1 + rr.Intn(4)
	if rr.Chance(1, 10) {
		n = 8 + rr.Intn(10)
	}
	c := &c03Case{Input: gen.Mutate(rr, base, other, n, 64<<10), Idx: i}
	c.Opts = []string{"plain", "naming", "default", "default"}[i%4]
	return c
}

// c03Worker is the child-batch entry: vcheck worker c03mut <seed> <from> <to> <heartbeat>
// It prints one JSON finding per line and "DONE <n> <snaps>" at the end.
func c03Worker(args []string) {
	if len(args) < 1 {
		os.Exit(2)
	}
	switch args[0] {
	case "c03mut":
		seed, _ := strconv.ParseInt(args[1], 10, 64)
		from, _ := strconv.Atoi(args[2])
		to, _ := strconv.Atoi(args[3])
		hb := args[4]
		out := bufio.NewWriter(os.Stdout)
		snaps, nonTrivial := 0, 0
		for i := from; i < to; i++ {
			if (i-from)%16 == 0 {
				_ = os.WriteFile(hb, []byte(strconv.Itoa(i)), 0o644)
			}
			c := c03GenCase(seed, i)
			if c.Opts == "default" && os.Getenv("VERIF_CONTROL") == "panic" && i == from+3 {
				panic("positive control: harness-internal panic")
			}
			// the input is on disk before the call: a fatal error cannot lose it
			if (i-from)%16 == 0 || os.Getenv("VERIF_PARANOID") != "" {
				_ = os.WriteFile(hb+".input", c.Input, 0o644)
			}
			key, what, ns := pipeline(c.Input, c.Opts)
			snaps += ns
			if ns > 0 {
				nonTrivial++
			}
			if key != "" {
				b, _ := json.Marshal(finding{Key: key, What: what, Case: *c})
				fmt.Fprintf(out, "FINDING %s\n", b)
			}
		}
		fmt.Fprintf(out, "DONE %d %d %d\n", to-from, snaps, nonTrivial)
		out.Flush()
	case "c03lin":
		c03LinearChild(args[1:])
	case "live":
		liveWorker(args[1:])
	default:
		os.Exit(2)
	}
}

func cpuTicks(pid int) int64 {
	b, err := os.ReadFile(fmt.Sprintf("/proc/%d/stat", pid))
	if err != nil {
		return -1
	}
	i := bytes.LastIndexByte(b, ')')
	f := strings.Fields(string(b[i+1:]))
	if len(f) < 14 {
		return -1
	}
	u, _ := strconv.ParseInt(f[11], 10, 64)
	s, _ := strconv.ParseInt(f[12], 10, 64)
	return u + s
}

// runChildBatch runs one child over [from,to) with a progress watchdog.
func runChildBatch(r *core.Run, from, to int, control bool) (done bool) {
	hb := filepath.Join(os.Getenv("VERIF_WORK"), fmt.Sprintf("hb-%d", from))
	cmd := exec.Command(os.Args[0], "worker", "c03mut", strconv.FormatInt(r.Seed, 10), strconv.Itoa(from), strconv.Itoa(to), hb)
	cmd.Env = append(os.Environ(), "GOTRACEBACK=single")
	if control {
		cmd.Env = append(cmd.Env, "VERIF_CONTROL=panic")
	}
	var so, se bytes.Buffer
	cmd.Stdout, cmd.Stderr = &so, &se
	if err := cmd.Start(); err != nil {
		r.Broken("cannot start worker: " + err.Error())
		return false
	}
	exited := make(chan error, 1)
	go func() { exited <- cmd.Wait() }()
	lastIdx, lastCPU, stuck := "", int64(0), 0
	var err error
	hung := false
loop:
	for {
		select {
		case err = <-exited:
			break loop
		case <-time.After(3 * time.Second):
			b, _ := os.ReadFile(hb)
			cpu := cpuTicks(cmd.Process.Pid)
			if string(b) == lastIdx {
				if cpu-lastCPU >= 0 {
					stuck++
				}
			} else {
				stuck, lastIdx, lastCPU = 0, string(b), cpu
			}
			// no logical progress over >= 3 samples while the child burned >= 60 s of CPU
			if stuck >= 3 && cpu-lastCPU >= 6000 {
				_ = cmd.Process.Kill()
				hung = true
			}
		}
	}
	sc := bufio.NewScanner(&so)
	sc.Buffer(make([]byte, 1<<20), 64<<20)
	for sc.Scan() {
		line := sc.Text()
		switch {
		case strings.HasPrefix(line, "FINDING "):
			var f finding
			if json.Unmarshal([]byte(line[8:]), &f) == nil {
				if !control {
					r.Violation(f.Key, f.What, "mut", &f.Case)
				}
			}
		case strings.HasPrefix(line, "DONE "):
			var n, s, nt int
			fmt.Sscanf(line, "DONE %d %d %d", &n, &s, &nt)
			if !control {
				r.Eval(n)
				r.Count("snapshots_rendered", s)
				r.Count("inputs_yielding_a_snapshot", nt)
			}
			done = true
		}
	}
	if control {
		return !done && err != nil // the control must be reported as a dead process
	}
	if !done {
		idx, _ := os.ReadFile(hb)
		in, _ := os.ReadFile(hb + ".input")
		i, _ := strconv.Atoi(string(idx))
		key := "process-died"
		if hung {
			key = "hang"
		}
		// locate the case: replay the 16 cases after the heartbeat one by one in fresh children is
		// expensive; store what we have.
		r.Violation(key, fmt.Sprintf("worker over cases [%d,%d) died near case %d (err=%v): %s", from, to, i, err, core.Trunc(se.String(), 1500)), "mutrange", map[string]any{"from": i, "to": minI(i+16, to), "last_input": in})
	}
	return done
}

func runC03(r *core.Run) {
	r.Rule("(a) grammar-aware mutation (splice/duplicate/delete/reorder lines, corrupt numbers, escapes incl. after the package dot, brackets, indentation, truncation, byte flips, blown-up tokens; <= 64 KiB) of generated dumps, race reports, streams and seed lines; " +
		"each input goes through repeated scanning until exhaustion (strict progress asserted), then every similarity level and both HTML renderings of every snapshot; options rotate over {no naming, naming, DefaultOpts with path guessing and source analysis against the real GOROOT, decoy paths included}; run in child processes (a fatal error cannot hide); " +
		"(b) every sequence of L line kinds from every scanner state through the same pipeline; (c) the pp binary on a sample (exit status in {0,1}, no goroutine trace on stderr); " +
		"(d) linear work: Read calls and line scans bounded by the input size on every input; TotalAlloc growth per doubling for scaling families. distinct by hash(input); non-trivial = input yields >= 1 snapshot")
	r.Assume("allocation volume (runtime.MemStats.TotalAlloc) is the proxy for work in the scaling families; wall-clock time decides nothing")
	n := r.N(30000, 1500000)
	w := workers()
	batch := (n + w*4 - 1) / (w * 4)
	var wg sync.WaitGroup
	sem := make(chan struct{}, w)
	for from := 0; from < n; from += batch {
		to := from + batch
		if to > n {
			to = n
		}
		wg.Add(1)
		sem <- struct{}{}
		go func(from, to int) {
			defer wg.Done()
			defer func() { <-sem }()
			runChildBatch(r, from, to, false)
		}(from, to)
	}
	wg.Wait()
	r.DistinctN(int(r.Counter("inputs_yielding_a_snapshot")))
	for i := 0; i < 3; i++ {
		c := c03GenCase(r.Seed, i)
		r.Sample(map[string]any{"input": b2s(c.Input, 700), "opts": c.Opts})
	}
	// positive control: the crash net must report a dying child.
	if !runChildBatch(r, 0, 8, true) {
		r.Broken("positive control: a panicking worker was not detected as a dead process")
	} else {
		r.Set("control_dead_worker_detected", true)
	}
	// (b) sequences
	seqEnumerate(r, r.N(3, 4), "robust", r.N(2, 1))
	// (c) CLI sample
	nc := r.N(150, 5000)
	core.Parallel(nc, workers(), func(i int) {
		c := c03GenCase(r.Seed, 1_000_000+i)
		args := []string{}
		if i%2 == 0 {
			args = append(args, "-rebase=false")
		}
		res := runPP(c.Input, nil, args...)
		r.Eval(1)
		r.Count("pp_runs", 1)
		if res.TimedOut {
			r.Inconclusive(fmt.Sprintf("pp watchdog fired on mutated input %d", i))
			return
		}
		if crashed(&res) || (res.Exit != 0 && res.Exit != 1) {
			st := string(res.Stderr)
			r.Violation("cli-"+panicKey(st), fmt.Sprintf("pp exit=%d stderr=%s", res.Exit, core.Trunc(st, 1500)), "cli", &c03Case{Input: c.Input, Opts: strings.Join(args, " ")})
		}
	})
	c03CLIClasses(r)
	c03FS(r)
	c03ProgTraces(r)
	c03RealCrashes(r)
	c03Special(r)
	c03Linear(r)
	nativeFuzzResult(r)
}

// c03CLIClasses: pp on race reports and dumps whose stacks (operation, creation and goroutine stacks of 1..4 frames)
// lie entirely in one location class - the go-test generated main, the local Go root, a GOPATH that does not
// exist, nowhere: what pp parsed it must be able to print, in every path format.
func c03CLIClasses(r *core.Run) {
	goroot := runtime.GOROOT()
	pools := [][]string{
		{"/tmp/go-build123/b001/_test/_testmain.go", "/tmp/go-build9/b077/_test/_testmain.go"},
		{goroot + "/src/fmt/print.go", goroot + "/src/net/http/server.go", goroot + "/src/runtime/proc.go", goroot + "/src/testing/testing.go"},
		{"/home/ci/go/src/github.com/a/b/c.go", "/home/ci/go/pkg/mod/github.com/d/e@v1.0.0/f.go"},
		{"/nowhere/x.go", "y.go", "/z.go"},
	}
	n := r.N(60, 1500)
	core.Parallel(n, workers(), func(i int) {
		rr := core.NewRand(r.Seed, 35, uint64(i))
		fill := func(fr []gen.Frame) {
			pool := pools[rr.Intn(len(pools))]
			for k := range fr {
				fr[k].File = pool[rr.Intn(len(pool))]
				fr[k].Line = 10 + rr.Intn(200)
			}
		}
		var in []byte
		if i%3 != 0 {
			rc := gen.GenRace(rr, &gen.RaceCfg{MaxOps: 3, MaxFrames: 4, CreateMode: 1, ForceArgs: i%2 == 0})
			rc.CRLF, rc.NoFinalEOL = false, false
			for k := range rc.Ops {
				fill(rc.Ops[k].Frames)
			}
			for k := range rc.Creates {
				fill(rc.Creates[k].Frames)
			}
			in = rc.Render()
		} else {
			d := gen.GenDump(rr, &gen.Cfg{MaxG: 4, MaxFrames: 4, MaxDepth: 2, MaxArgs: 3}, 0)
			for k := range d.Gs {
				fill(d.Gs[k].Frames)
				if d.Gs[k].Creator != nil {
					pool := pools[rr.Intn(len(pools))]
					d.Gs[k].Creator.File = pool[rr.Intn(len(pool))]
				}
			}
			in = d.Render()
		}
		args := [][]string{nil, {"-full-path"}, {"-rel-path"}, {"-rebase=false"}, {"-aggressive", "-full-path"}}[i%5]
		res := runPP(in, nil, args...)
		r.Eval(1)
		r.Count("pp_runs", 1)
		r.Count("pp_class_runs", 1)
		if res.TimedOut {
			r.Inconclusive("pp watchdog fired on a single-class input")
			return
		}
		if crashed(&res) || (res.Exit != 0 && res.Exit != 1) {
			st := string(res.Stderr)
			r.Violation("cli-"+panicKey(st), fmt.Sprintf("pp %v on a well-formed input whose stacks lie in one location class: exit=%d stderr=%s", args, res.Exit, core.Trunc(st, 1500)), "cli", &c03Case{Input: in, Opts: strings.Join(args, " ")})
		}
	})
}

// c03FS: path guessing and source analysis against generated file-system layouts (Go root, GOPATHs, module
// caches, modules, files present and absent, decoys, shadow files) whose dumps also name paths made of a detected
// root plus a short remainder: the whole pipeline runs on each, under recover.
func c03FS(r *core.Run) {
	n := r.N(800, 12000)
	core.Parallel(n, workers(), func(i int) { c03FSEval(r, r.Seed, i) })
}

func c03FSEval(r *core.Run, seed int64, i int) {
	{
		dir := fsDir("c03", i)
		defer os.RemoveAll(dir)
		rr := core.NewRand(seed, 33, uint64(i))
		l := gen.GenFS(rr, dir, &gen.FSCfg{Decoys: true, MissingSome: i%2 == 0, Nested: i%3 == 0, Hostile: true})
		in := l.DumpFor(rr).Render()
		opts := &stack.Opts{LocalGOROOT: l.LocalGOROOT, LocalGOPATHs: l.LocalGOPATHs, GuessPaths: true, AnalyzeSources: true, NameArguments: true}
		var st string
		func() {
			defer func() {
				if p := recover(); p != nil {
					st = fmt.Sprintf("%v\n%s", p, debug.Stack())
				}
			}()
			s, _, _ := stack.ScanSnapshot(bytes.NewReader(in), io.Discard, opts)
			if s != nil {
				for _, lvl := range []stack.Similarity{stack.ExactFlags, stack.AnyPointer, stack.AnyValue} {
					a := s.Aggregate(lvl)
					if i%16 == 0 {
						_ = a.ToHTML(io.Discard, "")
					}
				}
			}
		}()
		r.Eval(1)
		r.Count("fs_layouts_scanned", 1)
		if st != "" {
			r.Violation(panicKey(st), fmt.Sprintf("path guessing / source analysis panicked on a generated layout: %s", core.Trunc(st, 1500)), "fs", map[string]any{"seed": seed, "idx": i, "input": string(in), "layout": l})
		}
	}
}

// stuckReader delivers some data, then returns (0, nil) forever.
type stuckReader struct {
	data  []byte
	calls int
}

func (s *stuckReader) Read(p []byte) (int, error) {
	s.calls++
	if len(s.data) > 0 {
		n := copy(p, s.data)
		s.data = s.data[n:]
		return n, nil
	}
	return 0, nil
}

// c03Special: the corners of "never crashes, always terminates" that random inputs do not reach: invalid
// options, a source that makes no progress, a pass-through writer that fails.
func c03Special(r *core.Run) {
	guard := func(name string, f func() string) {
		var msg string
		func() {
			defer func() {
				if p := recover(); p != nil {
					msg = fmt.Sprintf("panic: %v", p)
				}
			}()
			msg = f()
		}()
		r.Eval(1)
		r.Mark("special_cases", name)
		if msg != "" {
			r.Violation("special:"+name, name+": "+msg, "special", map[string]any{"name": name})
		}
	}
	in := gen.MutationBase(core.NewRand(r.Seed, 31, 1))
	guard("nil-options", func() string {
		s, _, err := stack.ScanSnapshot(bytes.NewReader(in), io.Discard, nil)
		if err == nil || s != nil {
			return "nil options accepted"
		}
		return ""
	})
	guard("invalid-options", func() string {
		for _, o := range []*stack.Opts{{AnalyzeSources: true}, {LocalGOROOT: "C:\\go"}, {LocalGOPATHs: []string{"/ok", "d:\\gp"}}} {
			if s, _, err := stack.ScanSnapshot(bytes.NewReader(in), io.Discard, o); err == nil || s != nil {
				return fmt.Sprintf("invalid options %+v accepted", *o)
			}
		}
		return ""
	})
	for i := 0; i < 40; i++ {
		rr := core.NewRand(r.Seed, 32, uint64(i))
		data := gen.MutationBase(rr)
		cut := rr.Intn(len(data) + 1)
		guard("source-makes-no-progress", func() string {
			sr := &stuckReader{data: append([]byte{}, data[:cut]...)}
			_, _, err := stack.ScanSnapshot(sr, io.Discard, namingOpts())
			if err == nil {
				// a dump may have ended before the source got stuck: scanning the rest must then fail
				_, _, err = stack.ScanSnapshot(sr, io.Discard, namingOpts())
			}
			if sr.calls > cut+250 {
				return fmt.Sprintf("%d Read calls on a source that delivers nothing", sr.calls)
			}
			_ = err
			return ""
		})
		guard("writer-fails", func() string {
			w := &sched.Writer{FailAt: 1 + rr.Intn(4)}
			lines := bytes.Count(data, []byte("\n")) + 8
			var rd io.Reader = bytes.NewReader(data)
			for k := 0; k < lines; k++ {
				_, suffix, err := stack.ScanSnapshot(rd, w, namingOpts())
				if err != nil {
					if w.Writes >= w.FailAt && err != sched.ErrWrite && err != io.EOF {
						// a parse error may legitimately come first; a failed write must not be swallowed as success
						return ""
					}
					return ""
				}
				rd = io.MultiReader(bytes.NewReader(suffix), rd)
			}
			return "scanning with a failing writer never ended"
		})
	}
}

var fuzzExecsRe = regexp.MustCompile(`execs: (\d+)`)
var fuzzFailRe = regexp.MustCompile(`Failing input written to (\S+)`)

// nativeFuzzResult folds the log of the go-test fuzzing run (thorough tier, started by ./check) into the verdict.
func nativeFuzzResult(r *core.Run) {
	b, err := os.ReadFile(filepath.Join(os.Getenv("VERIF_WORK"), "fuzz.log"))
	if err != nil {
		if !r.Quick() {
			r.Broken("thorough tier: the native fuzzing log is missing")
		}
		return
	}
	log := string(b)
	execs := 0
	for _, m := range fuzzExecsRe.FindAllStringSubmatch(log, -1) {
		if n, _ := strconv.Atoi(m[1]); n > execs {
			execs = n
		}
	}
	r.Set("native_fuzz_execs", execs)
	r.Eval(execs)
	if m := fuzzFailRe.FindStringSubmatch(log); m != nil {
		src := filepath.Join(core.Root(), "harness", "cmd", "vcheck", m[1])
		in, _ := os.ReadFile(src)
		tail := log
		if len(tail) > 3000 {
			tail = tail[len(tail)-3000:]
		}
		r.Violation("native-fuzz", "go test -fuzz=FuzzPipeline found a failing input ("+src+"):\n"+tail, "fuzzcorpus", map[string]any{"corpus_file": src, "corpus": string(in)})
		return
	}
	if !strings.Contains(log, "native fuzz exit=0") || execs == 0 {
		tail := log
		if len(tail) > 1500 {
			tail = tail[len(tail)-1500:]
		}
		r.Broken("native fuzzing did not run to completion: " + tail)
	}
}

func replayC03(r *core.Run, kind string, raw json.RawMessage) {
	switch kind {
	case "mut":
		var c c03Case
		if err := json.Unmarshal(raw, &c); err != nil {
			r.Broken(err.Error())
			return
		}
		if k, w, _ := pipeline(c.Input, c.Opts); k != "" {
			r.Violation(k, w, "mut", &c)
		}
	case "cli":
		var c c03Case
		_ = json.Unmarshal(raw, &c)
		res := runPP(c.Input, nil, strings.Fields(c.Opts)...)
		if crashed(&res) {
			r.Violation("cli-crash", string(res.Stderr), "cli", &c)
		}
	case "seq":
		replaySeqOrStream(r, kind, raw, "robust")
	case "fs":
		var c struct {
			Seed int64 `json:"seed"`
			Idx  int   `json:"idx"`
		}
		_ = json.Unmarshal(raw, &c)
		c03FSEval(r, c.Seed, c.Idx)
	}
}

var _ = runtime.NumCPU

// c03ProgTraces: real tracebacks of generated programs whose sources are on disk, corrupted by the mutation
// engine and scanned with path guessing and source analysis on: the typed-argument decoder then meets argument
// shapes that do not match the declared parameters (family (d) of the design: augment inside the crash net).
func c03ProgTraces(r *core.Run) {
	np := r.N(3, 24)
	per := r.N(1500, 20000)
	for k := 0; k < np; k++ {
		c := &c19Case{Seed: r.Seed, Idx: 7000 + k, Toolchain: "go"}
		bp, err := buildAndCrash(c)
		if err != nil {
			r.Broken(err.Error())
			return
		}
		opts := c19Opts(bp.goroot, true, k%2 == 0)
		core.Parallel(per, workers(), func(i int) {
			rr := core.NewRand(r.Seed, 34, uint64(k*1000003+i))
			in := gen.Mutate(rr, bp.trace, bp.trace, 1+rr.Intn(5), 1<<20)
			var p any
			var st string
			func() {
				defer func() {
					if p = recover(); p != nil {
						st = string(debug.Stack())
					}
				}()
				s, _, _, _ := scanAll(in, opts)
				if s != nil {
					_ = s.Aggregate(stack.AnyPointer)
				}
			}()
			r.Eval(1)
			if p != nil {
				r.Violation(panicKey(st), fmt.Sprintf("panic on a corrupted traceback with sources present: %v\n%s", p, core.Trunc(st, 1200)), "mut", &c03Case{Input: in, Opts: "plain", Idx: i})
			}
		})
		r.Count("program_traces_mutated", per)
		// directed: every number of the traceback (goroutine id, line numbers, offsets, argument words) replaced by
		// every boundary value of a decimal/hex parser, one at a time, sources still present
		numRe := regexp.MustCompile(`[0-9]+`)
		locs := numRe.FindAllIndex(bp.trace, -1)
		if len(locs) > 400 {
			locs = locs[:400]
		}
		core.Parallel(len(locs), workers(), func(li int) {
			for _, v := range numberBoundaries {
				in := append(append(append([]byte{}, bp.trace[:locs[li][0]]...), v...), bp.trace[locs[li][1]:]...)
				var p any
				var st string
				func() {
					defer func() {
						if p = recover(); p != nil {
							st = string(debug.Stack())
						}
					}()
					s, _, _, _ := scanAll(in, opts)
					if s != nil {
						_ = s.Aggregate(stack.AnyPointer)
					}
				}()
				r.Eval(1)
				r.Count("program_trace_numbers_replaced", 1)
				if p != nil {
					r.Violation(panicKey(st), fmt.Sprintf("panic on a real traceback (sources present) in which one number was replaced by %s: %v\n%s", v, p, core.Trunc(st, 1200)), "mut", &c03Case{Input: in, Opts: "plain", Idx: li})
					return
				}
			}
		})
		_ = os.RemoveAll(bp.dir)
	}
}

var numberBoundaries = []string{"0", "00000000000000000000001", "2147483647", "2147483648", "4294967295", "4294967296", "999999999999999999", "1000000000000000000",
	"9223372036854775807", "9223372036854775808", "9999999999999999999", "18446744073709551615", "18446744073709551616", "99999999999999999999", "-1", ""}

// c03RealCrashes: the output of every crash scenario of the repository's cmd/panic (built from the tree under
// test, also with -race) goes through the whole pipeline with every option set, as is and corrupted.
func c03RealCrashes(r *core.Run) {
	names := realCrashNames()
	r.Set("real_crash_scenarios", len(names))
	if len(names) == 0 {
		r.Broken("cmd/panic could not be built or run: no real crash output")
		return
	}
	per := r.N(60, 1500)
	core.Parallel(len(names), workers(), func(k int) {
		in := realCrashes()[names[k]]
		r.Mark("real_crashes", names[k])
		for i := 0; i < per; i++ {
			rr := core.NewRand(r.Seed, 35, uint64(k*100003+i))
			data := in
			if i > 2 {
				data = gen.Mutate(rr, in, in, 1+rr.Intn(4), 1<<20)
			}
			opt := []string{"plain", "naming", "default"}[i%3]
			key, what, _ := pipelineHTML(data, opt, i%8 == 0)
			r.Eval(1)
			if key != "" && key != "superlinear-root-guessing" {
				r.Violation(key, "real crash output of cmd/panic "+names[k]+": "+what, "mut", &c03Case{Input: data, Opts: opt, Idx: i})
				return
			}
		}
	})
}
