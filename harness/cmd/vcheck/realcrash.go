package main

import (
	"bytes"
	"context"
	"fmt"
	"os"
	"os/exec"
	"path/filepath"
	"sort"
	"strings"
	"sync"
	"time"

	"verifharness/core"
)

// Real crash output: the repository's own cmd/panic program (every scenario it knows, built from the tree
// under test, with and without the race detector) is crashed and what a terminal would show (stdout and
// stderr interleaved in one stream) is used as additional input for the metamorphic checks. The text is not
// reproducible byte for byte (addresses, goroutine ids), so witnesses store the bytes.

var (
	realOnce sync.Once
	realOut  map[string][]byte
)

func buildPanicTool(race bool) string {
	out := filepath.Join(os.Getenv("VERIF_WORK"), "panictool")
	args := []string{"build", "-o", out}
	if race {
		out += ".race"
		args = []string{"build", "-race", "-o", out}
	}
	cmd := exec.Command("go", append(args, "./cmd/panic")...)
	cmd.Dir = core.Repo()
	cmd.Env = append(os.Environ(), "GOFLAGS=-mod=mod", "GOPROXY=off", "GOTOOLCHAIN=local")
	if b, err := cmd.CombinedOutput(); err != nil {
		fmt.Printf("NOTE cmd/panic does not build (race=%v): %v %s\n", race, err, core.Trunc(string(b), 400))
		return ""
	}
	return out
}

// realCrashes returns scenario name -> combined output. Empty map if the tool cannot be built.
func realCrashes() map[string][]byte {
	realOnce.Do(func() {
		realOut = map[string][]byte{}
		for _, race := range []bool{false, true} {
			tool := buildPanicTool(race)
			if tool == "" {
				continue
			}
			list, err := exec.Command(tool, "dump_commands").Output()
			if err != nil {
				continue
			}
			for _, name := range strings.Fields(string(list)) {
				isRace := strings.HasPrefix(name, "race")
				if isRace != race {
					continue
				}
				for _, tb := range []string{"all", "single"} {
					ctx, cancel := context.WithTimeout(context.Background(), 60*time.Second)
					cmd := exec.CommandContext(ctx, tool, name)
					cmd.Env = []string{"GOTRACEBACK=" + tb, "PATH=" + os.Getenv("PATH"), "GORACE=halt_on_error=1"}
					var buf bytes.Buffer
					cmd.Stdout, cmd.Stderr = &buf, &buf
					_ = cmd.Run()
					timedOut := ctx.Err() != nil
					cancel()
					if !timedOut && buf.Len() > 0 {
						realOut[name+"/"+tb] = buf.Bytes()
					}
				}
			}
		}
	})
	return realOut
}

// realCrashNames returns the scenario names in a fixed order.
func realCrashNames() []string {
	m := realCrashes()
	var out []string
	for k := range m {
		out = append(out, k)
	}
	sort.Strings(out)
	return out
}
