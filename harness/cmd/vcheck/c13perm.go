package main

import (
	"fmt"
	"sort"
	"strings"

	"github.com/maruel/panicparse/v2/stack"

	"verifharness/core"
	"verifharness/gen"
)

// c13Perm: black box on the comparison behind the presented order, including its last tie-breaks. Goroutines with
// the same frames, state and lock flag but different creators form different buckets that tie under the signature
// comparison; their sleep ranges and sizes vary. A strict weak order sorts a set of buckets the same way whatever
// order they arrive in, up to buckets that are genuinely tied - and those a stable sort leaves in arrival order.
// So: if two buckets swap between two arrival orders of the same goroutines, they must be in arrival order
// (by their earliest member) in every arrangement.
type permCase struct {
	Seed  int64 `json:"seed"`
	Trial int   `json:"trial"`
}

func c13PermEval(r *core.Run, c *permCase) {
	rr := core.NewRand(c.Seed, 131, uint64(c.Trial))
	creators := []string{"main.spawnA", "main.spawnB", "main.spawnC", "main.spawnD"}
	sleeps := []int{0, 1, 4, 5, 10, 11, 12, 20}
	type gor struct {
		creator string
		sleep   int
		locked  bool
		state   string
	}
	var gs []gor
	nc := 2 + rr.Intn(3)
	for ci := 0; ci < nc; ci++ {
		for k := 1 + rr.Intn(3); k > 0; k-- {
			// some members are locked to their thread (the bucket is then shown locked, which ranks it) and the
			// creators' goroutines wait in one of two states
			g := gor{creators[ci], sleeps[rr.Intn(len(sleeps))], false, "chan receive"}
			if c.Trial%2 == 1 {
				g.locked = rr.Chance(1, 3)
				g.state = []string{"chan receive", "IO wait"}[(ci+c.Trial/2)%2]
			}
			gs = append(gs, g)
		}
	}
	mk := func(order []int) *stack.Snapshot {
		sigs := []*stack.Signature{{State: "running", Stack: stack.Stack{Calls: []stack.Call{gen.MkCall("main.main", "/src/app/main.go", 5, stack.GoMod, stack.Args{})}}}}
		for _, k := range order {
			g := gs[k]
			sigs = append(sigs, &stack.Signature{State: g.state, SleepMin: g.sleep, SleepMax: g.sleep, Locked: g.locked,
				Stack:     stack.Stack{Calls: []stack.Call{gen.MkCall("main.worker", "/src/app/worker.go", 20, stack.GoMod, stack.Args{})}},
				CreatedBy: stack.Stack{Calls: []stack.Call{gen.MkCall(g.creator, "/src/app/main.go", 30, stack.GoMod, stack.Args{})}}})
		}
		return gen.MkSnapshot(sigs)
	}
	n := len(gs)
	type arrangement struct {
		order   []int          // goroutine indices in arrival order
		buckets []string       // creator of each bucket, in presented order (the crashing bucket left out)
		first   map[string]int // creator -> earliest arrival position
	}
	var arr []arrangement
	for p := 0; p < 10; p++ {
		order := rr.Perm(n)
		if p == 0 {
			order = make([]int, n)
			for i := range order {
				order[i] = i
			}
		}
		s := mk(order)
		var a *stack.Aggregated
		var panicked any
		func() {
			defer func() { panicked = recover() }()
			a = s.Aggregate(stack.AnyValue)
		}()
		r.Eval(1)
		if panicked != nil {
			r.Violation("aggregate-panic", fmt.Sprint(panicked), "perm", c)
			return
		}
		ar := arrangement{order: order, first: map[string]int{}}
		for pos, k := range order {
			if _, ok := ar.first[gs[k].creator]; !ok {
				ar.first[gs[k].creator] = pos
			}
		}
		for _, b := range a.Buckets {
			if b.First || len(b.CreatedBy.Calls) == 0 {
				continue
			}
			ar.buckets = append(ar.buckets, b.CreatedBy.Calls[0].Func.Complete)
		}
		arr = append(arr, ar)
	}
	pos := func(a *arrangement, cr string) int {
		for i, b := range a.buckets {
			if b == cr {
				return i
			}
		}
		return -1
	}
	used := creators[:nc]
	for i := 0; i < len(used); i++ {
		for j := i + 1; j < len(used); j++ {
			x, y := used[i], used[j]
			swaps := false
			for k := 1; k < len(arr); k++ {
				if (pos(&arr[0], x) < pos(&arr[0], y)) != (pos(&arr[k], x) < pos(&arr[k], y)) {
					swaps = true
				}
			}
			if !swaps {
				continue
			}
			for k := range arr {
				a := &arr[k]
				if (pos(a, x) < pos(a, y)) != (a.first[x] < a.first[y]) {
					var desc []string
					for _, g := range gs {
						desc = append(desc, fmt.Sprintf("%s/%dmin", strings.TrimPrefix(g.creator, "main."), g.sleep))
					}
					sort.Strings(desc)
					r.Violation("order-depends-on-arrival", fmt.Sprintf("the buckets created by %s and %s swap places between arrival orders of the same goroutines although they are not tied (in arrangement %v they are not in arrival order): presented orders %v vs %v; goroutines %v",
						x, y, a.order, arr[0].buckets, a.buckets, desc), "perm", c)
					return
				}
			}
		}
	}
}

func c13Perm(r *core.Run) {
	n := r.N(4000, 200000)
	core.Parallel(n, workers(), func(i int) {
		c13PermEval(r, &permCase{Seed: r.Seed, Trial: i})
	})
	r.DistinctN(n)
	r.Count("arrival_order_trials", n)
}

// c13Deep: the relevance clauses on very deep stacks (hundreds of frames of one class, as in a runaway recursion):
// a bucket of N standard-library frames comes after a bucket with one main / module / GOPATH / module-cache frame,
// and a bucket of N module frames after a bucket with a package-main frame, in both arrival orders.
func c13Deep(r *core.Run) {
	mk := func(fn, file string, line int, loc stack.Location) stack.Call {
		return gen.MkCall(fn, file, line, loc, stack.Args{})
	}
	deep := func(n int, c stack.Call) stack.Stack {
		var st stack.Stack
		for i := 0; i < n; i++ {
			st.Calls = append(st.Calls, c)
		}
		return st
	}
	std := mk("runtime.recurse", "/goroot/src/runtime/proc.go", 100, stack.Stdlib)
	mod := mk("example.com/mod/pkg.Recurse", "/w/mod/pkg/f.go", 20, stack.GoMod)
	highs := []stack.Call{
		mk("main.main", "/w/mod/main.go", 10, stack.GoMod),
		mk("example.com/mod/pkg.F", "/w/mod/pkg/f.go", 21, stack.GoMod),
		mk("github.com/gp/lib.G", "/gopath/src/github.com/gp/lib/g.go", 30, stack.GOPATH),
		mk("github.com/dep/x.H", "/gopath/pkg/mod/github.com/dep/x@v1.0.0/h.go", 40, stack.GoPkg),
	}
	type pair struct {
		low  stack.Call
		high stack.Call
		what string
	}
	var pairs []pair
	for _, h := range highs {
		pairs = append(pairs, pair{std, h, "standard-library frames vs one " + h.Func.Complete + " frame"})
	}
	pairs = append(pairs, pair{mod, highs[0], "module frames vs one package-main frame"})
	crash := stack.Signature{State: "running", Stack: stack.Stack{Calls: []stack.Call{mk("unknown/z.Crash", "/somewhere/z.go", 1, stack.LocationUnknown)}}}
	for _, n := range []int{3, 255, 256, 257, 258, 300, 600, 1000, 70000} {
		if r.Quick() && n > 1000 {
			continue
		}
		for _, p := range pairs {
			for order := 0; order < 2; order++ {
				low := stack.Signature{State: "select", Stack: deep(n, p.low)}
				high := stack.Signature{State: "select", Stack: stack.Stack{Calls: []stack.Call{p.high}}}
				sigs := []*stack.Signature{&crash, &low, &high}
				if order == 1 {
					sigs = []*stack.Signature{&crash, &high, &low}
				}
				s := gen.MkSnapshot(sigs)
				for _, lvl := range []stack.Similarity{stack.ExactFlags, stack.AnyValue} {
					var a *stack.Aggregated
					var panicked any
					func() {
						defer func() { panicked = recover() }()
						a = s.Aggregate(lvl)
					}()
					r.Eval(1)
					if panicked != nil || a == nil || len(a.Buckets) != 3 {
						r.Violation("deep-stack-aggregate", fmt.Sprintf("%d %s: Aggregate panicked or lost a bucket: %v", n, p.what, panicked), "deep", map[string]any{"n": n, "what": p.what})
						return
					}
					if len(a.Buckets[1].Stack.Calls) != 1 {
						r.Violation("deep-stack-order", fmt.Sprintf("a bucket of %d %s: the deep bucket is presented before the other one (arrival order %d)", n, p.what, order), "deep", map[string]any{"n": n, "what": p.what, "order": order})
						return
					}
				}
			}
		}
	}
	r.Count("deep_stack_cases", 1)
}
