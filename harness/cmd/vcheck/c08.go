package main

import (
	"bytes"
	"encoding/json"
	"fmt"
	"io"
	"strconv"
	"strings"

	"verifharness/core"
	"verifharness/gen"
	"verifharness/mon"
)

func init() {
	checks["C08"] = check{level: "exploration", run: runC08, replay: replayC08}
}

type c08Case struct {
	Race    *gen.Race  `json:"race"`
	Pre     gen.BinStr `json:"pre"`
	Post    gen.BinStr `json:"post"`
	Unknown int        `json:"unknown_gid,omitempty"` // id of the section that matches no operation
	Chunk   int        `json:"chunk"`
}

func c08Eval(r *core.Run, c *c08Case) {
	rep := c.Race.Render()
	in := append(append([]byte(c.Pre), rep...), c.Post...)
	res := scanOnce(in, plainOpts(), nil, c.Chunk)
	r.Eval(1)
	report := func(key, what string) { r.Violation(key, what, "grace", c) }
	if res.Panic != nil {
		report("panic", fmt.Sprintf("ScanSnapshot panicked: %v", res.Panic))
		return
	}
	if c.Unknown != 0 {
		// Negative variant.
		if res.Err == nil || res.Err == io.EOF {
			report("unknown-id-accepted", fmt.Sprintf("creation section for goroutine %d (no such operation) accepted, err=%v", c.Unknown, res.Err))
			return
		}
		if !strings.Contains(res.Err.Error(), strconv.Itoa(c.Unknown)) {
			report("unknown-id-error-text", fmt.Sprintf("error %q does not name goroutine %d", res.Err, c.Unknown))
			return
		}
		if res.Snap != nil {
			before := map[int]*gen.RaceCreate{}
			for i := range c.Race.Creates {
				if c.Race.Creates[i].GID == c.Unknown {
					break
				}
				before[c.Race.Creates[i].GID] = &c.Race.Creates[i]
			}
			for _, g := range res.Snap.Goroutines {
				want := 0
				if cr := before[g.ID]; cr != nil {
					want = len(cr.Frames)
				}
				if len(g.CreatedBy.Calls) != want {
					report("misattribution", fmt.Sprintf("goroutine %d has %d creation calls, its own section has %d; section of unknown goroutine %d misattributed", g.ID, len(g.CreatedBy.Calls), want, c.Unknown))
					return
				}
			}
		}
		return
	}
	if d := mon.CompareRace(c.Race, res.Snap); d != "" {
		report("fidelity:"+diffKey(d), d+fmt.Sprintf(" err=%v", res.Err))
		return
	}
	if !errIsEOFOrNil(res.Err) {
		report("error", fmt.Sprintf("well-formed report gives error %v", res.Err))
		return
	}
	if !bytes.Equal(res.Prefix, []byte(c.Pre)) {
		report("prefix", fmt.Sprintf("forwarded %q want %q", b2s(res.Prefix, 200), core.Trunc(string(c.Pre), 200)))
		return
	}
	rest := append(append([]byte{}, res.Suffix...), res.Rest...)
	if !bytes.Equal(rest, []byte(c.Post)) {
		key := "remainder"
		if len(rest) < len(c.Post) && bytes.HasSuffix([]byte(c.Post), rest) {
			key = "text-after-closing-separator-lost"
		}
		report(key, fmt.Sprintf("closing separator must end the report: remainder is %d bytes %q, the text after the separator is %d bytes %q", len(rest), b2s(rest, 120), len(c.Post), core.Trunc(string(c.Post), 120)))
	}
}

func runC08(r *core.Run) {
	r.Rule("reports printed by a model of tsan_report.cpp (Go branch): 2..6 operations, stacks of 1..12 (one case in 97: 1..300) frames with/without arguments, creation sections for any subset of the goroutines in any order, " +
		"running/finished, LF/CRLF, junk before, text after the closing separator (none, short, > 16 KiB); negative variant with a section naming an unknown goroutine; " +
		"distinct = hash of input; non-trivial = every case (>= 2 operations by construction)")
	r.Assume("generator's reading of tsan's Go report format; 'by main goroutine', '[failed to restore the stack]' and location blocks are outside C08's statement")
	n := r.N(150000, 3000000)
	core.Parallel(n, workers(), func(i int) {
		rr := core.NewRand(r.Seed, 8, uint64(i))
		rc := &gen.RaceCfg{MaxOps: 6, MaxFrames: 12}
		if i%97 == 5 {
			rc.MaxFrames = 300 // tsan restores far more frames than the runtime's traceback prints
		}
		switch i % 10 {
		case 0:
			rc.CreateMode = 1
		case 1:
			rc.CreateMode = 2
		case 2, 3:
			rc.Unknown = true
		}
		c := &c08Case{Race: gen.GenRace(rr, rc)}
		eol := c.Race.EOL()
		if rc.Unknown {
			have := map[int]bool{}
			for _, o := range c.Race.Ops {
				have[o.GID] = true
			}
			for _, cr := range c.Race.Creates {
				if !have[cr.GID] {
					c.Unknown = cr.GID
				}
			}
		}
		if rr.Chance(2, 3) {
			c.Pre = gen.BinStr(gen.Junk(rr, &gen.JunkCfg{Binary: true}, rr.Intn(4), eol))
		}
		switch rr.Intn(8) {
		case 0:
			// text that looks like the start of a report right before the real one
			c.Pre += gen.BinStr("==================" + eol)
		case 1:
			c.Pre += gen.BinStr("==================" + eol + "WARNING: DATA RACE" + eol)
		}
		if !c.Race.NoFinalEOL {
			switch rr.Intn(4) {
			case 0:
			case 1:
				c.Post = gen.BinStr("Found 1 data race(s)" + eol + "exit status 66" + eol)
			case 2:
				c.Post = gen.BinStr(gen.Junk(rr, &gen.JunkCfg{Long: true, Binary: true, Separators: true}, 1+rr.Intn(6), eol))
			case 3:
				c.Post = gen.BinStr(strings.Repeat("after the report ", 1200+rr.Intn(2000)) + eol + "tail")
			}
		}
		switch i % 7 {
		case 0:
			c.Chunk = 1
		case 1:
			c.Chunk = 1 + rr.Intn(500)
		}
		c08Eval(r, c)
		r.Distinct(core.HashStr(string(c.Pre) + string(c.Race.Render()) + string(c.Post)))
		addrs := map[uint64]bool{}
		for _, op := range c.Race.Ops {
			addrs[op.Addr] = true
		}
		if len(addrs) > 1 {
			r.Count("reports_with_different_addresses", 1)
		}
		r.Mark("variants", fmt.Sprintf("ops=%d creates=%d unknown=%v post=%v args=%v addrs=%v", len(c.Race.Ops), len(c.Race.Creates), c.Unknown != 0, c.Post != "", c.Race.WithArgs, len(addrs) > 1))
		if i < 2 {
			r.Sample(map[string]any{"input": core.Trunc(string(c.Pre)+string(c.Race.Render())+string(c.Post), 1500)})
		}
	})
}

func replayC08(r *core.Run, kind string, raw json.RawMessage) {
	var c c08Case
	if err := json.Unmarshal(raw, &c); err != nil {
		r.Broken(err.Error())
		return
	}
	c08Eval(r, &c)
}
