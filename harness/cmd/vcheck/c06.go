package main

import (
	"bytes"
	"encoding/json"
	"fmt"
	"os"
	"path/filepath"
	"regexp"
	"strings"

	"github.com/maruel/panicparse/v2/stack"

	"verifharness/core"
	"verifharness/gen"
	"verifharness/mon"
	"verifharness/sched"
)

func init() {
	checks["C06"] = check{level: "exploration", run: runC06, replay: replayC06}
}

type c06Case struct {
	Kind  string    `json:"kind"` // ties | fs | pp
	Dump  *gen.Dump `json:"dump,omitempty"`
	Seed  int64     `json:"seed,omitempty"`
	Idx   int       `json:"idx,omitempty"`
	Reps  int       `json:"reps"`
	Args  []string  `json:"args,omitempty"`
	Input []byte    `json:"input,omitempty"`
}

var createdOnRe = regexp.MustCompile(`Created on [^<]*`)
var gomaxprocsRe = regexp.MustCompile(`GOMAXPROCS: \d+`)

// maskHTML hides what legitimately varies: the creation time and the
// process's GOMAXPROCS setting.
func maskHTML(b []byte) []byte {
	return gomaxprocsRe.ReplaceAll(createdOnRe.ReplaceAll(b, []byte("Created on <masked>")), []byte("GOMAXPROCS: <masked>"))
}

type detResult struct {
	snap *stack.Snapshot
	aggs [4]*stack.Aggregated
	html [2][]byte
	err  string
}

func detRun(in []byte, opts *stack.Opts) detResult {
	var res detResult
	s, _, _, err := scanAll(in, opts)
	res.snap, res.err = s, mon.ErrStr(err)
	if s == nil {
		return res
	}
	for i, lvl := range allLevels {
		res.aggs[i] = s.Aggregate(lvl)
	}
	var b bytes.Buffer
	_ = res.aggs[2].ToHTML(&b, "")
	res.html[0] = maskHTML(b.Bytes())
	b = bytes.Buffer{}
	_ = s.ToHTML(&b, "")
	res.html[1] = maskHTML(b.Bytes())
	return res
}

func detDiff(a, b *detResult) (string, string) {
	if a.err != b.err {
		return "error", fmt.Sprintf("error %q vs %q", a.err, b.err)
	}
	if d := mon.DiffSnapshot(a.snap, b.snap, mon.EqOpt{}); d != "" {
		return "snapshot", d
	}
	if a.snap == nil {
		return "", ""
	}
	for i := range a.aggs {
		if d := mon.DiffAggregated(a.aggs[i], b.aggs[i], mon.EqOpt{}); d != "" {
			return "bucket-order/" + levelNames[i], fmt.Sprintf("%s: %s", levelNames[i], d)
		}
	}
	for i := range a.html {
		if !bytes.Equal(a.html[i], b.html[i]) {
			k := firstDiff(a.html[i], b.html[i])
			return "html", fmt.Sprintf("HTML differs at byte %d: %q vs %q", k, b2s(tailFrom(a.html[i], k), 100), b2s(tailFrom(b.html[i], k), 100))
		}
	}
	return "", ""
}

// tieDump makes a dump whose buckets tie under the ordering: same frames,
// different non-pointer argument values or creators, equal sizes.
func tieDump(rr *core.Rand) *gen.Dump {
	d := &gen.Dump{F: gen.Format{FileIndent: "\t"}}
	nb := 2 + rr.Intn(7)
	per := 1 + rr.Intn(3)
	used := map[int]bool{}
	fn := gen.Sym{Pkg: rr.Pick([]string{"main", "net/http", "example.com/srv"}), Name: "(*conn).serve"}
	file := "/src/app/server.go"
	byCreator := rr.Chance(1, 3)
	// a third kind of tie: the same function, directory/file name and line under different roots (two checkouts,
	// a vendored copy) - different buckets that compare equal
	byRoot := !byCreator && rr.Chance(1, 3)
	nptr := rr.Intn(6)
	for b := 0; b < nb; b++ {
		for k := 0; k < per; k++ {
			g := gen.Goroutine{ID: gen.GenID(rr, used), State: "IO wait"}
			args := gen.Args{Vals: []gen.Arg{{Value: uint64(b + 1), Inaccurate: rr.Chance(1, 4)}, {Value: 0xc000000000 + uint64(rr.Intn(1+nptr))*16}}}
			if byCreator {
				args = gen.Args{Vals: []gen.Arg{{Value: 7}}}
				g.Creator = &gen.Creator{Sym: gen.Sym{Pkg: "main", Name: fmt.Sprintf("spawn%d", b)}, File: "/src/app/main.go", Line: 10}
			}
			f := file
			if byRoot {
				args = gen.Args{Vals: []gen.Arg{{Value: 7}}}
				f = fmt.Sprintf("/checkout%d%s", b, file)
			}
			g.Frames = []gen.Frame{{Sym: fn, Args: args, File: f, Line: 100, PCOff: 0x1d}, {Sym: gen.Sym{Pkg: "main", Name: "loop"}, File: "/src/app/main.go", Line: 50, PCOff: 0x2}}
			d.Gs = append(d.Gs, g)
		}
	}
	// shuffle goroutines (keep a random one first)
	p := rr.Perm(len(d.Gs))
	gs := make([]gen.Goroutine, len(d.Gs))
	for i, k := range p {
		gs[i] = d.Gs[k]
	}
	d.Gs = gs
	return d
}

func c06Ties(r *core.Run, c *c06Case) {
	in := c.Dump.Render()
	base := detRun(in, namingOpts())
	r.Eval(1)
	for k := 1; k < c.Reps; k++ {
		if k%3 == 1 {
			// unrelated calls in between (A-B-A)
			detRun([]byte("goroutine 1 [running]:\nmain.other(0x1)\n\t/x/y.go:1 +0x1\n"), namingOpts())
		}
		if k%3 == 2 {
			// ... including one whose source hands over its last bytes together with io.EOF and which stops
			// before draining them (a dump followed by more text)
			scanOnceSrc(&sched.Scripted{Data: []byte("goroutine 1 [running]:\nmain.other(0x1)\n\t/x/y.go:1 +0x1\nexit status 2\nmore\n"), FinalWithData: true}, namingOpts())
		}
		again := detRun(in, namingOpts())
		r.Eval(1)
		if key, what := detDiff(&base, &again); key != "" {
			r.Violation(key, fmt.Sprintf("run %d differs from run 0 on the same bytes: %s", k, what), "ties", c)
			return
		}
	}
}

func c06FS(r *core.Run, c *c06Case) {
	dir := fsDir("c06", c.Idx)
	defer os.RemoveAll(dir)
	rr := core.NewRand(c.Seed, 6, uint64(c.Idx))
	l := gen.GenFS(rr, dir, &gen.FSCfg{Nested: true, Decoys: true})
	// overlapping GOPATH roots: a package whose remote path lies under another remote root's src tree or
	// module cache, found through its own src tree or module cache (all four combinations).
	if len(l.LocalGOPATHs) >= 2 {
		lp0, lp1 := l.LocalGOPATHs[0], l.LocalGOPATHs[1]
		mk := func(p string) {
			_ = os.MkdirAll(filepath.Dir(p), 0o755)
			_ = os.WriteFile(p, []byte("package x\n"), 0o644)
		}
		outerKind := []string{"src", "pkg/mod"}[rr.Intn(2)]
		innerKind := []string{"src", "pkg/mod"}[rr.Intn(2)]
		mk(lp1 + "/" + innerKind + "/inner/pkg/i.go")
		mk(lp0 + "/" + outerKind + "/outer/o.go")
		l.Frames = append(l.Frames,
			gen.FSFrame{Remote: "/rgp/" + outerKind + "/a.com/foo@v1.0.0/" + innerKind + "/inner/pkg/i.go", Pkg: "inner/pkg"},
			gen.FSFrame{Remote: "/rgp/" + outerKind + "/outer/o.go", Pkg: "outer"})
		r.Mark("overlap_kinds", outerKind+" contains "+innerKind)
		if rr.Bool() {
			// the same packages present in both GOPATHs (one is a superset of the other): which copy a frame resolves
			// to must not depend on what an earlier call did with the same options
			n := 0
			for _, f := range l.Frames {
				if f.Exists && strings.HasPrefix(f.Local, lp0+"/") {
					mk(lp1 + strings.TrimPrefix(f.Local, lp0))
					n++
				}
			}
			if n > 0 {
				r.Count("fs_layouts_with_a_package_in_two_gopaths", 1)
			}
		}
	}
	d := l.DumpFor(rr)
	in := d.Render()
	opts := &stack.Opts{LocalGOROOT: l.LocalGOROOT, LocalGOPATHs: l.LocalGOPATHs, GuessPaths: true, NameArguments: true}
	base := detRun(in, opts)
	r.Eval(1)
	for k := 1; k < c.Reps; k++ {
		again := detRun(in, opts)
		r.Eval(1)
		if key, what := detDiff(&base, &again); key != "" {
			c.Input = in
			r.Violation("fs:"+key, fmt.Sprintf("run %d differs from run 0 with the same files on disk: %s", k, what), "fs", c)
			return
		}
	}
	if len(base.snap.LocalGomods) > 1 || len(base.snap.RemoteGOPATHs) > 1 {
		r.Count("fs_layouts_with_several_roots", 1)
	}
}

func c06PP(r *core.Run, c *c06Case) {
	var base *ppResult
	for k := 0; k < c.Reps; k++ {
		res := runPP(c.Input, nil, c.Args...)
		r.Eval(1)
		r.Count("pp_runs", 1)
		if res.TimedOut {
			r.Inconclusive("pp watchdog fired")
			return
		}
		if base == nil {
			base = &res
			continue
		}
		if !bytes.Equal(base.Stdout, res.Stdout) || base.Exit != res.Exit {
			i := firstDiff(base.Stdout, res.Stdout)
			r.Violation("pp-output", fmt.Sprintf("pp run %d prints different bytes for the same input (exit %d vs %d), first difference at %d: %q vs %q", k, base.Exit, res.Exit, i, b2s(tailFrom(base.Stdout, i), 120), b2s(tailFrom(res.Stdout, i), 120)), "pp", c)
			return
		}
	}
}

func runC06(r *core.Run) {
	r.Rule("the same bytes/options/files executed R times: (a) dumps whose buckets TIE under the ordering (same frames, different non-pointer values or creators, equal sizes), 2..8 buckets, 0..5 distinct pointers, in-process R runs with unrelated calls in between, comparing snapshot, the four aggregations in order with merged signatures, and both HTML documents (creation time masked); " +
		"(b) G-SNAP universe samples; (c) file-system layouts with nested modules and overlapping GOPATH roots under GuessPaths; (d) the pp binary, R fresh processes per input, byte comparison; (e) history: a snapshot rendered after another one that names the same files and lines but resolved them differently gets the document it gets when rendered alone. " +
		"each repetition samples fresh map-iteration orders. distinct by hash(input); non-trivial = >= 2 buckets at the default level")
	r.Assume("Go randomises every range over a map, so each repetition is a new schedule of the map iterations")
	reps := r.N(30, 200)
	n := r.N(800, 6000)
	core.Parallel(n, workers(), func(i int) {
		rr := core.NewRand(r.Seed, 61, uint64(i))
		var d *gen.Dump
		if i%3 == 2 {
			d = gen.GenDump(rr, &gen.Cfg{MaxG: 10, MaxFrames: 3, MaxDepth: 2, FewShapes: true, PtrPool: []uint64{1, 2, 3, 0xc000012340, 0xc000012348}}, rr.Intn(864))
		} else {
			d = tieDump(rr)
		}
		c := &c06Case{Kind: "ties", Dump: d, Reps: reps}
		c06Ties(r, c)
		r.Distinct(core.Hash64(d.Render()))
		if i < 2 {
			r.Sample(map[string]any{"dump": b2s(d.Render(), 900), "repetitions": reps})
		}
	})
	nf := r.N(150, 2000)
	core.Parallel(nf, workers(), func(i int) {
		c06FS(r, &c06Case{Kind: "fs", Seed: r.Seed, Idx: i, Reps: r.N(20, 60)})
		r.Distinct(uint64(1e9) + uint64(i))
	})
	names := realCrashNames()
	r.Set("real_crash_scenarios", len(names))
	core.Parallel(len(names), workers(), func(k int) {
		in := realCrashes()[names[k]]
		c06PP(r, &c06Case{Kind: "pp", Input: in, Args: [][]string{{}, {"-rebase=false"}, {"-aggressive"}}[k%3], Reps: r.N(6, 20)})
		c := &c06Case{Kind: "raw", Input: in, Reps: r.N(10, 50)}
		base := detRun(in, stack.DefaultOpts())
		for j := 1; j < c.Reps; j++ {
			again := detRun(in, stack.DefaultOpts())
			r.Eval(1)
			if key, what := detDiff(&base, &again); key != "" {
				r.Violation("real:"+key, "cmd/panic "+names[k]+": run "+fmt.Sprint(j)+" differs: "+what, "raw", c)
				break
			}
		}
		r.Distinct(core.Hash64(in))
	})
	np := r.N(48, 500)
	core.Parallel(np, workers(), func(i int) {
		rr := core.NewRand(r.Seed, 62, uint64(i))
		d := tieDump(rr)
		args := [][]string{{"-rebase=false"}, {"-rebase=false", "-aggressive"}, {"-rebase=false", "-force-color"}, {"-rebase=false", "-full-path"}}[i%4]
		c06PP(r, &c06Case{Kind: "pp", Input: d.Render(), Args: args, Reps: r.N(10, 40)})
		r.Distinct(core.Hash64(d.Render()) ^ uint64(i%4))
	})
	c06History(r)
	c06HistoryScan(r)
	c06HistoryCLI(r)
}

func replayC06(r *core.Run, kind string, raw json.RawMessage) {
	var c c06Case
	if err := json.Unmarshal(raw, &c); err != nil {
		r.Broken(err.Error())
		return
	}
	if c.Reps < 200 {
		c.Reps = 200
	}
	switch kind {
	case "raw":
		base := detRun(c.Input, stack.DefaultOpts())
		for j := 1; j < c.Reps; j++ {
			again := detRun(c.Input, stack.DefaultOpts())
			if key, what := detDiff(&base, &again); key != "" {
				r.Violation("real:"+key, what, "raw", &c)
				return
			}
		}
	case "ties":
		c06Ties(r, &c)
	case "fs":
		c06FS(r, &c)
	case "pp":
		c.Reps = 50
		c06PP(r, &c)
	}
}
