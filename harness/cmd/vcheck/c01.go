package main

import (
	"bytes"
	"encoding/json"
	"fmt"
	"io"

	"verifharness/core"
	"verifharness/gen"
	"verifharness/mon"
	"verifharness/sched"
)

func init() {
	checks["C01"] = check{level: "exploration", run: runC01, replay: replayC01}
}

type c01Case struct {
	Dump   *gen.Dump  `json:"dump"`
	Pre    gen.BinStr `json:"pre"`
	Chunk  int        `json:"chunk"`
	Naming bool       `json:"naming"`
	// EOFWithData: the reader returns io.EOF together with the last bytes.
	EOFWithData bool   `json:"eof_with_data,omitempty"`
	Input       []byte `json:"input"`
}

func c01Eval(r *core.Run, c *c01Case) {
	in := append([]byte(c.Pre), c.Dump.Render()...)
	c.Input = in
	opts := plainOpts()
	if c.Naming {
		opts = namingOpts()
	}
	res := scanOnceSrc(&sched.Scripted{Data: in, Rest: c.Chunk, FinalWithData: c.EOFWithData}, opts)
	r.Eval(1)
	report := func(key, what string) {
		c2 := *c
		if len(c2.Input) > 1<<16 {
			c2.Input = nil // regenerated from the abstract dump on replay
		}
		r.Violation(key, what, "gdump", &c2)
	}
	if res.Panic != nil {
		report("panic", fmt.Sprintf("ScanSnapshot panicked: %v", res.Panic))
		return
	}
	if d := mon.CompareDump(c.Dump, res.Snap); d != "" {
		report("fidelity:"+diffKey(d), d+fmt.Sprintf(" (format %+v)", c.Dump.F))
		return
	}
	if res.Err != io.EOF {
		report("error", fmt.Sprintf("well-formed dump at end of stream: err=%v want EOF", res.Err))
		return
	}
	if !bytes.Equal(res.Prefix, []byte(c.Pre)) {
		report("prefix", fmt.Sprintf("forwarded %q want %q", b2s(res.Prefix, 200), core.Trunc(string(c.Pre), 200)))
		return
	}
	if len(res.Suffix)+len(res.Rest) != 0 {
		report("remainder", fmt.Sprintf("remainder %q after a dump that ends the stream", b2s(append(res.Suffix, res.Rest...), 200)))
	}
}

func runC01(r *core.Run) {
	r.Rule("dumps printed by a model of runtime/traceback.go (G-DUMP): goroutine count, states, flags, symbol/file/arg shapes random, " +
		"format variant = case index over all 864 combinations of EOL x indent x file-indent x gp/m x fp/sp/pc x elided style x created-by style; " +
		"parsed snapshot compared field by field with the abstract dump; distinct = hash of rendered bytes; " +
		"one dump in 2000 has up to 4000 goroutines; non-trivial = >= 2 goroutines or a nested aggregate or a line > 16 KiB; plus live-runtime rounds (see live_*)")
	r.Assume("the generator's reading of the runtime traceback format and of the linker's PathToPrefix escaping",
		"64-bit host (pointer ceiling 2^63-1)")
	n := r.N(80000, 1500000)
	maxG := r.N(8, 120)
	nf := len(gen.AllFormats())
	core.Parallel(n, workers(), func(i int) {
		rr := core.NewRand(r.Seed, 1, uint64(i))
		cfg := &gen.Cfg{MaxG: maxG, MaxFrames: 150, MaxDepth: 5, AllowPlus: true}
		if i%16 == 3 {
			cfg.LongLines = true
			cfg.MaxG = 4
		}
		if i%50 != 0 {
			cfg.MaxFrames = 12 // keep most dumps small, the 150-frame ones are i%50==0
		}
		if i%2000 == 7 {
			cfg.MaxG, cfg.MaxFrames = 4000, 3 // now and then thousands of goroutines (a busy server): nothing is capped
		}
		if rr.Chance(1, 3) {
			cfg.PtrPool = []uint64{0xc000012340, 0xc000012348, 0xc0000a0000, 1 << 20, 512*1024 + 1}
		}
		d := gen.GenDump(rr, cfg, i%nf+(i/nf)*7)
		c := &c01Case{Dump: d, Naming: rr.Bool()}
		if rr.Chance(2, 3) {
			c.Pre = gen.BinStr(gen.Junk(rr, &gen.JunkCfg{Long: i%16 == 3, Binary: true}, rr.Intn(5), d.EOL()))
		}
		switch i % 10 {
		case 0:
			c.Chunk = 1
		case 1:
			c.Chunk = 1 + rr.Intn(300)
		case 2:
			c.Chunk = 16384
		case 3:
			c.EOFWithData = true
		case 4:
			c.EOFWithData, c.Chunk = true, 1+rr.Intn(300)
		}
		c01Eval(r, c)
		nontrivial := len(d.Gs) >= 2 || cfg.LongLines
		if !nontrivial {
			for _, f := range d.Gs[0].Frames {
				for _, a := range f.Args.Vals {
					if a.Agg {
						nontrivial = true
					}
				}
			}
		}
		if nontrivial {
			r.Distinct(core.Hash64(c.Input))
		}
		r.Mark("format_variants", fmt.Sprintf("crlf=%v indent=%q fi=%q annot=%d fpsp=%d eold=%v cin=%v", d.F.CRLF, d.F.Indent, d.F.FileIndent, d.F.Annot, d.F.FPSP, d.F.ElidedOld, d.F.CreatedIn))
		if i < 3 {
			r.Sample(map[string]any{"input": b2s(c.Input, 1500), "goroutines": len(d.Gs)})
		}
		if len(c.Input) > 16384 {
			r.Count("inputs_over_16KiB", 1)
		}
	})
	liveRounds(r, r.N(3, 30))
	if !r.Quick() {
		liveOtherToolchain(r, 1000, 30)
	}
}

func replayC01(r *core.Run, kind string, raw json.RawMessage) {
	switch kind {
	case "gdump":
		var c c01Case
		if err := json.Unmarshal(raw, &c); err != nil {
			r.Broken(err.Error())
			return
		}
		c01Eval(r, &c)
	case "live":
		var c liveCase
		if err := json.Unmarshal(raw, &c); err != nil {
			r.Broken(err.Error())
			return
		}
		liveEvalDump(r, &c)
	}
}
