package main

import (
	"bytes"
	"encoding/json"
	"fmt"
	"strings"

	"github.com/maruel/panicparse/v2/stack"

	"verifharness/core"
	"verifharness/gen"
	"verifharness/mon"
	"verifharness/sched"
)

func init() {
	checks["C09"] = check{level: "exploration", run: runC09, replay: replayC09}
}

type delivery struct {
	Chunks        []int `json:"chunks,omitempty"`
	Rest          int   `json:"rest,omitempty"`
	FinalWithData bool  `json:"final_with_data,omitempty"`
}

type c09Case struct {
	Input []byte   `json:"input"`
	Sched delivery `json:"sched"`
	Name  string   `json:"name"`
}

type scanTuple struct {
	snap   *stack.Snapshot
	prefix []byte
	err    string
	rest   []byte
	panic  any
}

func scanWith(in []byte, d *delivery) scanTuple {
	src := &sched.Scripted{Data: in, Chunks: d.Chunks, Rest: d.Rest, FinalWithData: d.FinalWithData}
	ch := &sched.Chain{Src: src}
	var w bytes.Buffer
	var t scanTuple
	func() {
		defer func() {
			if p := recover(); p != nil {
				t.panic = p
			}
		}()
		s, suffix, err := stack.ScanSnapshot(ch, &w, namingOpts())
		t.snap = s
		t.err = mon.ErrStr(err)
		t.rest = append(append([]byte{}, suffix...), ch.Remaining()...)
	}()
	t.prefix = w.Bytes()
	return t
}

func cmpTuple(a, b *scanTuple) (string, string) {
	if a.panic != nil || b.panic != nil {
		return "panic", fmt.Sprintf("panic: %v / %v", a.panic, b.panic)
	}
	if d := mon.DiffSnapshot(a.snap, b.snap, mon.EqOpt{}); d != "" {
		return "snapshot", d
	}
	if !bytes.Equal(a.prefix, b.prefix) {
		i := firstDiff(a.prefix, b.prefix)
		return "forwarded", fmt.Sprintf("forwarded bytes differ at %d (%d vs %d bytes): %q vs %q", i, len(a.prefix), len(b.prefix), b2s(tailFrom(a.prefix, i), 80), b2s(tailFrom(b.prefix, i), 80))
	}
	if a.err != b.err {
		return "error", fmt.Sprintf("error %q vs %q", a.err, b.err)
	}
	if !bytes.Equal(a.rest, b.rest) {
		i := firstDiff(a.rest, b.rest)
		return "remainder", fmt.Sprintf("remainder++unread differs at %d (%d vs %d bytes): %q vs %q", i, len(a.rest), len(b.rest), b2s(tailFrom(a.rest, i), 80), b2s(tailFrom(b.rest, i), 80))
	}
	return "", ""
}

func c09Eval(r *core.Run, in []byte, base *scanTuple, d delivery, name string) {
	t := scanWith(in, &d)
	r.Eval(1)
	if k, what := cmpTuple(base, &t); k != "" {
		c := &c09Case{Input: in, Sched: d, Name: name}
		if len(c.Sched.Chunks) > 4000 {
			c.Sched.Chunks = c.Sched.Chunks[:4000]
		}
		r.Violation("schedule:"+k, fmt.Sprintf("delivery %s vs single Read: %s", name, what), "sched", c)
	}
	r.Mark("schedule_kinds", strings.SplitN(name, "=", 2)[0])
}

// schedulesFor lists the delivery schedules tried on one (long) input.
func schedulesFor(rr *core.Rand, in []byte, thorough bool) []struct {
	d    delivery
	name string
} {
	type sd = struct {
		d    delivery
		name string
	}
	var out []sd
	add := func(d delivery, name string) { out = append(out, sd{d, name}) }
	add(delivery{Rest: 1}, "fixed=1")
	sizes := []int{2, 3, 5, 7, 16, 63, 64, 4096, 16382, 16383, 16384, 16385, 16386}
	if thorough {
		sizes = nil
		for i := 2; i <= 64; i++ {
			sizes = append(sizes, i)
		}
		sizes = append(sizes, 4096, 16382, 16383, 16384, 16385, 16386, 32768)
	}
	for _, s := range sizes {
		add(delivery{Rest: s}, fmt.Sprintf("fixed=%d", s))
	}
	add(delivery{Rest: 1, FinalWithData: true}, "eofwithdata=1")
	add(delivery{Rest: 0, FinalWithData: true}, "eofwithdata=all")
	add(delivery{Rest: 100, FinalWithData: true}, "eofwithdata=100")
	// random chunk lists
	for k := 0; k < 4; k++ {
		var ch []int
		for n := 0; n < len(in); {
			c := 1 + rr.Intn(200)
			if rr.Chance(1, 10) {
				c = 1 + rr.Intn(20000)
			}
			ch = append(ch, c)
			n += c
		}
		add(delivery{Chunks: ch}, fmt.Sprintf("random=%d", k))
	}
	// zero-length reads in runs of 1..99 between data chunks
	for k := 0; k < 2; k++ {
		var ch []int
		for n := 0; n < len(in); {
			run := 1 + rr.Intn(99)
			if rr.Chance(1, 5) {
				run = 99
			}
			for z := 0; z < run; z++ {
				ch = append(ch, 0)
			}
			c := 1 + rr.Intn(3000)
			ch = append(ch, c)
			n += c
		}
		add(delivery{Chunks: ch}, fmt.Sprintf("zeroreads=%d", k))
	}
	// chunk boundaries at every line end +/- 2 (one boundary per schedule, then everything)
	var ends []int
	for i, c := range in {
		if c == '\n' {
			ends = append(ends, i+1)
		}
	}
	step := 1
	if !thorough && len(ends) > 12 {
		step = len(ends) / 12
	}
	for k := 0; k < len(ends); k += step {
		for dlt := -2; dlt <= 2; dlt++ {
			p := ends[k] + dlt
			if p > 0 && p < len(in) {
				add(delivery{Chunks: []int{p}}, fmt.Sprintf("lineend=%d%+d", k, dlt))
			}
		}
	}
	// two split points
	for k := 0; k < 6; k++ {
		a := 1 + rr.Intn(len(in))
		b := 1 + rr.Intn(len(in))
		add(delivery{Chunks: []int{a, b}}, fmt.Sprintf("twosplit=%d", k))
	}
	return out
}

func c09Inputs(r *core.Run, i int) []byte {
	rr := core.NewRand(r.Seed, 9, uint64(i))
	switch i % 6 {
	case 0: // line lengths around the buffer size
		var b bytes.Buffer
		for k := 0; k < 3; k++ {
			n := []int{16384 - 2, 16384 - 1, 16384, 16384 + 1, 16384 + 2, 2 * 16384, 4 * 16384, 2*16384 - 1, 16383 * 3}[rr.Intn(9)]
			b.WriteString(strings.Repeat("j", n-1))
			b.WriteString("\n")
		}
		d := gen.GenDump(rr, &gen.Cfg{MaxG: 3, MaxFrames: 4, MaxDepth: 2}, rr.Intn(864))
		d.F.NoFinalEOL = false
		b.Write(d.Render())
		if rr.Bool() {
			b.WriteString("trailer line\n" + strings.Repeat("t", 16384+rr.Intn(5)-2) + "\nend")
		} else if rr.Bool() {
			// the line that ends the dump is the last of the stream, unterminated, as long as the read buffer +/- 1
			b.WriteString(d.F.Indent + strings.Repeat("t", 16384-len(d.F.Indent)+rr.Intn(3)-1))
		}
		return b.Bytes()
	case 1: // dump end straddling a refill: pad so that the dump's last line crosses 16384*k
		d := gen.GenDump(rr, &gen.Cfg{MaxG: 4, MaxFrames: 5, MaxDepth: 2}, rr.Intn(864))
		d.F.NoFinalEOL, d.F.TrailBlank = false, rr.Bool()
		body := d.Render()
		pad := 16384*(1+rr.Intn(2)) - len(body) + rr.Intn(40) - 20
		var b bytes.Buffer
		for pad > 0 {
			n := pad
			if n > 3000 {
				n = 3000
			}
			b.WriteString(strings.Repeat("p", n-1) + "\n")
			pad -= n
		}
		b.Write(body)
		b.WriteString("after the dump\nmore\n")
		return b.Bytes()
	case 2: // long lines inside the dump
		d := gen.GenDump(rr, &gen.Cfg{MaxG: 3, MaxFrames: 4, MaxDepth: 2, LongLines: true}, rr.Intn(864))
		if rr.Chance(1, 4) {
			return append([]byte("\xef\xbb\xbf"), d.Render()...) // BOM directly in front of the first header
		}
		return append([]byte("pre\n"), d.Render()...)
	default:
		c := genStreamCase(r, 9, i)
		if i%12 == 5 {
			// a byte-order mark (or another short non-ASCII prefix) glued to the first line: whatever the library makes
			// of it, it makes the same of it under every delivery
			return append([]byte(rr.Pick([]string{"\xef\xbb\xbf", "\xff\xfe", "\xef\xbb", "\x00"})), c.Stream.Render()...)
		}
		return c.Stream.Render()
	}
}

func runC09(r *core.Run) {
	r.Rule("per input (generated streams incl. race reports with trailing text, lines of 16384-2..16384+2 / 2x / 4x bytes, dump ends straddling a refill): the 4-tuple (snapshot, forwarded bytes, error, remainder ++ unread input) under each delivery schedule " +
		"(1-byte reads, fixed sizes, random chunk lists, zero-length read runs 1..99, a boundary at every line end +/- 2, EOF with the last data) is compared with the single-Read result; " +
		"plus ALL 2^(n-1) chunkings of short inputs. distinct = hash(input, schedule name); non-trivial = schedule differs from a single Read")
	r.Assume("a Reader never returns more than len(p) and returns its error sticky; zero-length read runs stay below the documented retry bound of 100")
	n := r.N(600, 16000)
	core.Parallel(n, workers(), func(i int) {
		in := c09Inputs(r, i)
		if len(in) == 0 {
			return
		}
		base := scanWith(in, &delivery{})
		rr := core.NewRand(r.Seed, 91, uint64(i))
		for _, s := range schedulesFor(rr, in, !r.Quick()) {
			c09Eval(r, in, &base, s.d, s.name)
			r.Distinct(core.Hash64(in) ^ core.HashStr(s.name))
		}
		if i < 2 {
			r.Sample(map[string]any{"input_len": len(in), "input_head": b2s(in, 300)})
		}
	})
	// Real crash output of the repository's cmd/panic scenarios under the same schedules.
	names := realCrashNames()
	r.Set("real_crash_scenarios", len(names))
	core.Parallel(len(names), workers(), func(k int) {
		in := append(append([]byte("log line before\n"), realCrashes()[names[k]]...), "exit status 2\ntrailing text\n"...)
		base := scanWith(in, &delivery{})
		rr := core.NewRand(r.Seed, 93, uint64(k))
		for _, s := range schedulesFor(rr, in, !r.Quick()) {
			c09Eval(r, in, &base, s.d, "real:"+s.name)
			r.Distinct(core.Hash64(in) ^ core.HashStr(s.name))
		}
	})
	// Exhaustive chunkings of short inputs.
	shorts := []string{
		"a\n==\n\nb", "x\r\ny\r\n", "\n\n\n", "===\nWARNING\n", "ab\ngoroutine",
		"goroutine 1 [r]:", "g 1 [r]:\na()\n", "=\n=\n=\n=\n",
	}
	if !r.Quick() {
		shorts = append(shorts, "goroutine 1 [r]:\n", "a\ngoroutine 2 [x]:", "==================", "12345678\n1234567\n")
	}
	for _, sh := range shorts {
		in := []byte(sh)
		if len(in) > 18 {
			in = in[:18]
		}
		base := scanWith(in, &delivery{})
		m := 1 << uint(len(in)-1)
		core.Parallel(m, workers(), func(mask int) {
			var ch []int
			run := 1
			for b := 0; b < len(in)-1; b++ {
				if mask&(1<<uint(b)) != 0 {
					ch = append(ch, run)
					run = 1
				} else {
					run++
				}
			}
			ch = append(ch, run)
			c09Eval(r, in, &base, delivery{Chunks: ch}, "allchunkings=")
		})
		r.DistinctN(m)
		r.Count("exhaustive_chunkings", m)
	}
	// Every single and every double split point of full small dumps.
	for k := 0; k < r.N(2, 12); k++ {
		rr := core.NewRand(r.Seed, 92, uint64(k))
		d := gen.GenDump(rr, &gen.Cfg{MaxG: 2, MaxFrames: 2, MaxDepth: 1, MaxArgs: 2}, rr.Intn(864))
		in := append([]byte("pre\n"), d.Render()...)
		in = append(in, "post\n"...)
		base := scanWith(in, &delivery{})
		nn := len(in)
		core.Parallel(nn, workers(), func(a int) {
			if a == 0 {
				return
			}
			c09Eval(r, in, &base, delivery{Chunks: []int{a}}, "split1=")
			k := 1
			for b := 1; a+b < nn; b++ {
				c09Eval(r, in, &base, delivery{Chunks: []int{a, b}}, "split2=")
				k++
			}
			r.DistinctN(k)
		})
		r.Count("double_split_inputs", 1)
	}
	r.Exhaustive(true)
}

func replayC09(r *core.Run, kind string, raw json.RawMessage) {
	var c c09Case
	if err := json.Unmarshal(raw, &c); err != nil {
		r.Broken(err.Error())
		return
	}
	base := scanWith(c.Input, &delivery{})
	c09Eval(r, c.Input, &base, c.Sched, c.Name)
}
