package main

// G-LIVE: a churn workload in this very process. "Known" goroutines record,
// before parking, their own goroutine id and their stack as seen by
// runtime.Callers/CallersFrames (an API independent of the text traceback)
// and who created them. The dump runtime.Stack(all) prints is then parsed by
// panicparse and compared with the registry.

import (
	"bytes"
	"encoding/json"
	"fmt"
	"io"
	"net"
	"os"
	"os/exec"
	"path/filepath"
	"regexp"
	"runtime"
	"strconv"
	"strings"
	"sync"
	"time"

	"github.com/maruel/panicparse/v2/stack"

	"verifharness/core"
)

type frameRec struct {
	Func string `json:"func"`
	File string `json:"file"`
	Line int    `json:"line"`
}

type knownG struct {
	Kind       string     `json:"kind"`
	GID        int        `json:"gid"`
	Frames     []frameRec `json:"frames"` // innermost first
	SpawnerFn  string     `json:"spawner_fn"`
	SpawnerGID int        `json:"spawner_gid"`
	Allowed    []string   `json:"allowed"`
	Locked     bool       `json:"locked"`
	Deep       bool       `json:"deep"`
	ready      chan struct{}
}

var gidRe = regexp.MustCompile(`^goroutine (\d+) `)

func curGID() int {
	var b [64]byte
	n := runtime.Stack(b[:], false)
	m := gidRe.FindSubmatch(b[:n])
	if m == nil {
		return -1
	}
	id, _ := strconv.Atoi(string(m[1]))
	return id
}

//go:noinline
func (k *knownG) record() {
	k.GID = curGID()
	pcs := make([]uintptr, 400)
	n := runtime.Callers(2, pcs)
	fr := runtime.CallersFrames(pcs[:n])
	for {
		f, more := fr.Next()
		if f.Function != "" && f.Function != "runtime.goexit" {
			k.Frames = append(k.Frames, frameRec{Func: f.Function, File: f.File, Line: f.Line})
		}
		if !more {
			break
		}
	}
	close(k.ready)
}

//go:noinline
func liveSpawn(k *knownG, f func()) {
	k.SpawnerGID = curGID()
	pcs := make([]uintptr, 4)
	n := runtime.Callers(1, pcs)
	fr, _ := runtime.CallersFrames(pcs[:n]).Next()
	k.SpawnerFn = fr.Function
	k.ready = make(chan struct{})
	go f()
}

// liveWorld is one generation of parked goroutines.
type liveWorld struct {
	known   []*knownG
	release []func()
	wg      sync.WaitGroup
}

//go:noinline
func liveChanRecv(k *knownG, ch chan int) { k.record(); <-ch }

//go:noinline
func liveChanSend(k *knownG, ch chan int) { k.record(); ch <- 1 }

//go:noinline
func liveSelect2(k *knownG, a, b chan int) {
	k.record()
	select {
	case <-a:
	case <-b:
	}
}

//go:noinline
func liveMutex(k *knownG, mu *sync.Mutex) { k.record(); mu.Lock(); mu.Unlock() }

//go:noinline
func liveRLock(k *knownG, mu *sync.RWMutex) { k.record(); mu.RLock(); mu.RUnlock() }

//go:noinline
func liveWLock(k *knownG, mu *sync.RWMutex) { k.record(); mu.Lock(); mu.Unlock() }

//go:noinline
func liveWaitGroup(k *knownG, wg *sync.WaitGroup) { k.record(); wg.Wait() }

//go:noinline
func liveCond(k *knownG, c *sync.Cond, done *bool) {
	c.L.Lock()
	k.record()
	for !*done {
		c.Wait()
	}
	c.L.Unlock()
}

//go:noinline
func liveSleep(k *knownG, stop chan int) {
	k.record()
	for {
		select {
		case <-stop:
			return
		default:
		}
		time.Sleep(200 * time.Millisecond)
	}
}

//go:noinline
func liveAccept(k *knownG, l net.Listener) {
	k.record()
	c, err := l.Accept()
	if err == nil {
		c.Close()
	}
}

//go:noinline
func livePipeRead(k *knownG, rd *os.File) {
	k.record()
	var b [1]byte
	_, _ = rd.Read(b[:])
}

//go:noinline
func liveLocked(k *knownG, ch chan int) {
	runtime.LockOSThread()
	defer runtime.UnlockOSThread()
	k.record()
	<-ch
}

//go:noinline
func liveDeep(k *knownG, n int, ch chan int) int {
	if n == 0 {
		k.record()
		<-ch
		return 0
	}
	return liveDeep(k, n-1, ch) + 1
}

//go:noinline
func liveSpin(k *knownG, stop *int32ptr) {
	k.record()
	x := 0
	for stop.load() == 0 {
		x++
	}
	_ = x
}

type int32ptr struct {
	mu sync.Mutex
	v  int32
}

func (p *int32ptr) load() int32 { p.mu.Lock(); defer p.mu.Unlock(); return p.v }
func (p *int32ptr) store(v int32) {
	p.mu.Lock()
	p.v = v
	p.mu.Unlock()
}

// liveGeneric is parked once per instantiation: the runtime prints all of them as liveGeneric[...] at the same
// file and line with the same number of top-level arguments, but with differently shaped values.
//
//go:noinline
func liveGeneric[T any](k *knownG, ch chan int, v T) T {
	k.record()
	<-ch
	return v
}

type livePair struct{ a, b int }

//go:noinline
func liveGenericEntry[T any](w *liveWorld, k *knownG, ch chan int, v T) {
	defer w.wg.Done()
	liveGeneric(k, ch, v)
}

//go:noinline
func liveSpawnGeneric[T any](w *liveWorld, ch chan int, v T) {
	k := &knownG{Kind: "generic", Allowed: []string{"chan receive"}, ready: make(chan struct{})}
	w.known = append(w.known, k)
	w.wg.Add(1)
	k.SpawnerGID = curGID()
	pcs := make([]uintptr, 4)
	n := runtime.Callers(1, pcs)
	fr, _ := runtime.CallersFrames(pcs[:n]).Next()
	k.SpawnerFn = fr.Function
	go liveGenericEntry(w, k, ch, v)
}

type liveT struct{ n int }

//go:noinline
func (t *liveT) Method(k *knownG, ch chan int, a int, s string, sl []int) {
	k.record()
	<-ch
	_ = a + len(s) + len(sl) + t.n
}

func startLive(rr *core.Rand) *liveWorld {
	w := &liveWorld{}
	add := func(kind string, allowed []string, body func(k *knownG)) *knownG {
		k := &knownG{Kind: kind, Allowed: allowed}
		w.known = append(w.known, k)
		w.wg.Add(1)
		liveSpawn(k, func() { defer w.wg.Done(); body(k) })
		return k
	}
	copies := 1 + rr.Intn(3)
	for c := 0; c < copies; c++ {
		ch1 := make(chan int)
		add("chan receive", []string{"chan receive"}, func(k *knownG) { liveChanRecv(k, ch1) })
		w.release = append(w.release, func() { close(ch1) })
		ch2 := make(chan int)
		add("chan send", []string{"chan send"}, func(k *knownG) { liveChanSend(k, ch2) })
		w.release = append(w.release, func() {
			select {
			case <-ch2:
			case <-time.After(5 * time.Second):
			}
		})
		a, b := make(chan int), make(chan int)
		add("select", []string{"select"}, func(k *knownG) { liveSelect2(k, a, b) })
		w.release = append(w.release, func() { close(b) })
	}
	mu := &sync.Mutex{}
	mu.Lock()
	add("mutex", []string{"sync.Mutex.Lock", "semacquire"}, func(k *knownG) { liveMutex(k, mu) })
	w.release = append(w.release, mu.Unlock)
	rw := &sync.RWMutex{}
	rw.Lock()
	add("rlock", []string{"sync.RWMutex.RLock", "semacquire"}, func(k *knownG) { liveRLock(k, rw) })
	w.release = append(w.release, rw.Unlock)
	rw2 := &sync.RWMutex{}
	rw2.RLock()
	add("wlock", []string{"sync.RWMutex.Lock", "semacquire"}, func(k *knownG) { liveWLock(k, rw2) })
	w.release = append(w.release, rw2.RUnlock)
	wg := &sync.WaitGroup{}
	wg.Add(1)
	add("waitgroup", []string{"sync.WaitGroup.Wait", "semacquire"}, func(k *knownG) { liveWaitGroup(k, wg) })
	w.release = append(w.release, wg.Done)
	cond := sync.NewCond(&sync.Mutex{})
	done := false
	add("cond", []string{"sync.Cond.Wait"}, func(k *knownG) { liveCond(k, cond, &done) })
	w.release = append(w.release, func() { cond.L.Lock(); done = true; cond.L.Unlock(); cond.Broadcast() })
	stop := make(chan int)
	add("sleep", []string{"sleep"}, func(k *knownG) { liveSleep(k, stop) })
	w.release = append(w.release, func() { close(stop) })
	if l, err := net.Listen("tcp", "127.0.0.1:0"); err == nil {
		add("accept", []string{"IO wait"}, func(k *knownG) { liveAccept(k, l) })
		w.release = append(w.release, func() { l.Close() })
	}
	if prd, pwr, err := os.Pipe(); err == nil {
		add("pipe read", []string{"IO wait", "syscall"}, func(k *knownG) { livePipeRead(k, prd) })
		w.release = append(w.release, func() { pwr.Close(); prd.Close() })
	}
	chl := make(chan int)
	kl := add("locked", []string{"chan receive"}, func(k *knownG) { liveLocked(k, chl) })
	kl.Locked = true
	w.release = append(w.release, func() { close(chl) })
	chd := make(chan int)
	depth := 20 + rr.Intn(40)
	if rr.Chance(1, 2) {
		depth = 120 + rr.Intn(60)
	}
	kd := add("deep", []string{"chan receive"}, func(k *knownG) { liveDeep(k, depth, chd) })
	kd.Deep = depth >= 95
	w.release = append(w.release, func() { close(chd) })
	sp := &int32ptr{}
	add("spin", []string{"running", "runnable"}, func(k *knownG) { liveSpin(k, sp) })
	w.release = append(w.release, func() { sp.store(1) })
	chm := make(chan int)
	t := &liveT{n: 3}
	add("method", []string{"chan receive"}, func(k *knownG) { t.Method(k, chm, 42, "hello", []int{1, 2, 3}) })
	w.release = append(w.release, func() { close(chm) })
	// identical stacks and creators, differently shaped arguments: all go through one generic spawner
	chg := make(chan int)
	liveSpawnGeneric(w, chg, livePair{1, 2})
	liveSpawnGeneric(w, chg, 7)
	liveSpawnGeneric(w, chg, "str")
	liveSpawnGeneric(w, chg, [3]int{1, 2, 3})
	liveSpawnGeneric(w, chg, livePair{3, 4})
	liveSpawnGeneric(w, chg, uintptr(9))
	w.release = append(w.release, func() { close(chg) })
	for _, k := range w.known {
		<-k.ready
	}
	return w
}

func (w *liveWorld) stop() {
	for _, f := range w.release {
		f()
	}
	w.wg.Wait()
}

// Independent reading of the raw dump: headers only.
var hdrRe = regexp.MustCompile(`(?m)^goroutine (\d+)(?: [^\[\n]*)? \[([^\]\n]*)\]:\r?$`)

type rawHeader struct {
	id    int
	items []string
}

func rawHeaders(raw []byte) []rawHeader {
	var out []rawHeader
	for _, m := range hdrRe.FindAllSubmatch(raw, -1) {
		id, _ := strconv.Atoi(string(m[1]))
		out = append(out, rawHeader{id: id, items: strings.Split(string(m[2]), ", ")})
	}
	return out
}

func captureAll() []byte {
	buf := make([]byte, 1<<20)
	for {
		n := runtime.Stack(buf, true)
		if n < len(buf) {
			return buf[:n]
		}
		buf = make([]byte, 2*len(buf))
	}
}

type liveCase struct {
	Raw   []byte    `json:"raw"`
	Known []*knownG `json:"known"`
	// Settled: every known goroutine showed an allowed state in the raw header.
	Settled bool `json:"settled"`
}

// liveEvalDump parses a captured dump and compares it with the registry.
func liveEvalDump(r *core.Run, c *liveCase) {
	report := func(key, what string) { r.Violation("live:"+key, what, "live", c) }
	var pfx bytes.Buffer
	var s *stack.Snapshot
	var rem []byte
	var err error
	func() {
		defer func() {
			if p := recover(); p != nil {
				report("panic", fmt.Sprintf("ScanSnapshot panicked on a runtime dump: %v", p))
				s = nil
			}
		}()
		s, rem, err = stack.ScanSnapshot(bytes.NewReader(c.Raw), &pfx, namingOpts())
	}()
	r.Eval(1)
	if s == nil {
		report("nosnapshot", fmt.Sprintf("no snapshot from runtime.Stack output, err=%v", err))
		return
	}
	if err != io.EOF && err != nil {
		report("error", fmt.Sprintf("runtime dump gives error %v", err))
		return
	}
	if len(rem) != 0 || pfx.Len() != 0 {
		report("remainder", fmt.Sprintf("runtime dump leaves prefix %q remainder %q", b2s(pfx.Bytes(), 200), b2s(rem, 200)))
		return
	}
	// the snapshot of a live process must aggregate at every level (the handler does just that)
	var aggPanic any
	func() {
		defer func() { aggPanic = recover() }()
		for _, lvl := range allLevels {
			n := 0
			for _, b := range s.Aggregate(lvl).Buckets {
				n += len(b.IDs)
			}
			if n != len(s.Goroutines) {
				aggPanic = fmt.Sprintf("bucket sizes add up to %d of %d goroutines", n, len(s.Goroutines))
			}
		}
	}()
	if aggPanic != nil {
		report("aggregate", fmt.Sprintf("aggregating the live snapshot failed: %v", aggPanic))
		return
	}
	hs := rawHeaders(c.Raw)
	if len(hs) != len(s.Goroutines) {
		report("count", fmt.Sprintf("%d header lines in the dump, %d goroutines parsed", len(hs), len(s.Goroutines)))
		return
	}
	byID := map[int]*stack.Goroutine{}
	for i, g := range s.Goroutines {
		h := hs[i]
		if g.ID != h.id {
			report("order", fmt.Sprintf("goroutine %d parsed at position %d where the dump has %d", g.ID, i, h.id))
			return
		}
		if g.State != h.items[0] {
			report("state", fmt.Sprintf("goroutine %d state %q, dump says %q", g.ID, g.State, h.items[0]))
			return
		}
		locked := false
		for _, it := range h.items[1:] {
			if it == "locked to thread" {
				locked = true
			}
		}
		if g.Locked != locked {
			report("locked", fmt.Sprintf("goroutine %d locked=%v, dump says %v", g.ID, g.Locked, locked))
			return
		}
		if g.First != (i == 0) {
			report("first", fmt.Sprintf("goroutine %d at %d First=%v", g.ID, i, g.First))
			return
		}
		if len(g.Stack.Calls) == 0 {
			report("emptystack", fmt.Sprintf("goroutine %d has no frames", g.ID))
			return
		}
		byID[g.ID] = g
	}
	for _, k := range c.Known {
		g := byID[k.GID]
		if g == nil {
			report("missing", fmt.Sprintf("known goroutine %d (%s) missing from the snapshot", k.GID, k.Kind))
			return
		}
		r.Mark("live_kinds", k.Kind+"/"+g.State)
		if c.Settled {
			ok := false
			for _, a := range k.Allowed {
				if g.State == a {
					ok = true
				}
			}
			if !ok {
				report("truestate", fmt.Sprintf("goroutine %d (%s) shows state %q, allowed %v", k.GID, k.Kind, g.State, k.Allowed))
				return
			}
			if g.Locked != k.Locked {
				report("truelocked", fmt.Sprintf("goroutine %d (%s) locked=%v want %v", k.GID, k.Kind, g.Locked, k.Locked))
				return
			}
		}
		// Frames: parsed calls are innermost first, like k.Frames. Match as
		// a suffix (outermost frames), the runtime's park frames sit on top.
		calls := g.Stack.Calls
		want := k.Frames
		if k.Deep {
			if !g.Stack.Elided {
				report("elided", fmt.Sprintf("goroutine %d (deep recursion, %d frames recorded) not marked elided", k.GID, len(want)))
				return
			}
			if len(calls) != 100 {
				report("elidedcount", fmt.Sprintf("deep goroutine %d has %d calls, the runtime prints 100", k.GID, len(calls)))
				return
			}
			if len(want) > 45 {
				want = want[len(want)-45:]
			}
		} else if g.Stack.Elided {
			report("elided", fmt.Sprintf("goroutine %d marked elided with %d recorded frames", k.GID, len(want)))
			return
		}
		if len(calls) < len(want) {
			report("frames", fmt.Sprintf("goroutine %d (%s): %d calls parsed, %d frames recorded by runtime.Callers", k.GID, k.Kind, len(calls), len(want)))
			return
		}
		off := len(calls) - len(want)
		for i := range want {
			cl := &calls[off+i]
			w := want[i]
			if cl.Func.Complete != w.Func || cl.RemoteSrcPath != w.File {
				report("frames", fmt.Sprintf("goroutine %d (%s) frame %d: parsed %s @ %s:%d, runtime.Callers says %s @ %s:%d", k.GID, k.Kind, i, cl.Func.Complete, cl.RemoteSrcPath, cl.Line, w.Func, w.File, w.Line))
				return
			}
			// The innermost recorded frame was captured at the record() call, one
			// statement before the blocking operation: its line may differ.
			if i > 0 && cl.Line != w.Line {
				report("lines", fmt.Sprintf("goroutine %d (%s) frame %d %s: line %d, runtime.Callers says %d", k.GID, k.Kind, i, w.Func, cl.Line, w.Line))
				return
			}
		}
		if len(g.CreatedBy.Calls) != 1 {
			report("creator", fmt.Sprintf("goroutine %d (%s) has %d creator calls", k.GID, k.Kind, len(g.CreatedBy.Calls)))
			return
		}
		cb := &g.CreatedBy.Calls[0]
		if cb.Func.ImportPath+"."+cb.Func.Name != k.SpawnerFn {
			report("creator", fmt.Sprintf("goroutine %d (%s) created by %q.%q, spawned by %s", k.GID, k.Kind, cb.Func.ImportPath, cb.Func.Name, k.SpawnerFn))
			return
		}
		if strings.Contains(cb.Func.Complete, " in goroutine ") && !strings.HasSuffix(cb.Func.Complete, fmt.Sprintf(" in goroutine %d", k.SpawnerGID)) {
			report("creator", fmt.Sprintf("goroutine %d creator %q, spawner goroutine was %d", k.GID, cb.Func.Complete, k.SpawnerGID))
			return
		}
		r.Count("live_known_goroutines_checked", 1)
	}
	r.Distinct(core.Hash64(c.Raw))
}

// liveRounds runs n rounds of churn + dump + compare.
func liveRounds(r *core.Run, n int) { liveRoundsFrom(r, 0, n) }

// liveRoundsFrom runs rounds [start, start+n).
func liveRoundsFrom(r *core.Run, start, n int) {
	for round := start; round < start+n; round++ {
		rr := core.NewRand(r.Seed, 77, uint64(round))
		w := startLive(rr)
		// churn: short-lived goroutines being created and exiting.
		stopChurn := make(chan struct{})
		var cw sync.WaitGroup
		for i := 0; i < 4; i++ {
			cw.Add(1)
			go func() {
				defer cw.Done()
				for {
					select {
					case <-stopChurn:
						return
					default:
					}
					var wg sync.WaitGroup
					for j := 0; j < 8; j++ {
						wg.Add(1)
						go func() { defer wg.Done(); runtime.Gosched() }()
					}
					wg.Wait()
				}
			}()
		}
		c := &liveCase{Known: w.known}
		for try := 0; try < 50; try++ {
			c.Raw = captureAll()
			hs := map[int]string{}
			for _, h := range rawHeaders(c.Raw) {
				hs[h.id] = h.items[0]
			}
			c.Settled = true
			for _, k := range w.known {
				ok := false
				for _, a := range k.Allowed {
					if hs[k.GID] == a {
						ok = true
					}
				}
				if !ok {
					c.Settled = false
				}
			}
			if c.Settled {
				break
			}
			time.Sleep(20 * time.Millisecond)
		}
		if !c.Settled {
			r.Count("live_rounds_not_settled", 1)
		}
		liveEvalDump(r, c)
		if round == start && start == 0 {
			r.Sample(map[string]any{"live_dump_head": b2s(c.Raw, 1200), "known": len(c.Known)})
		}
		close(stopChurn)
		cw.Wait()
		w.stop()
		r.Count("live_rounds", 1)
	}
}

// liveWorker is the child entry "vcheck worker live <prop> <seed> <start> <n>": it runs live rounds in a
// binary built with another toolchain and forwards findings to the parent.
func liveWorker(args []string) {
	prop := args[0]
	seed, _ := strconv.ParseInt(args[1], 10, 64)
	start, _ := strconv.Atoi(args[2])
	n, _ := strconv.Atoi(args[3])
	os.Setenv("VERIF_SEED", strconv.FormatInt(seed, 10))
	r := core.NewRun(prop, "thorough", "exploration")
	var mu sync.Mutex
	r.Sink = func(key, what, kind string, cs any) {
		b, _ := json.Marshal(map[string]any{"key": key, "what": what, "kind": kind, "case": cs})
		mu.Lock()
		fmt.Printf("FINDING %s\n", b)
		mu.Unlock()
	}
	liveRoundsFrom(r, start, n)
	b, _ := json.Marshal(map[string]any{"counters": r.Counters(), "kinds": r.Marks("live_kinds"), "go": runtime.Version()})
	fmt.Printf("LIVEDONE %s\n", b)
}

// liveOtherToolchain runs live rounds in the vcheck binary ./check built with go1.26.8 (thorough tier).
func liveOtherToolchain(r *core.Run, start, n int) {
	bin := filepath.Join(os.Getenv("VERIF_BIN"), "vcheck-go1.26.8")
	if _, err := os.Stat(bin); err != nil {
		r.Set("second_toolchain", "not built (quick tier)")
		return
	}
	cmd := exec.Command(bin, "worker", "live", r.Prop, strconv.FormatInt(r.Seed, 10), strconv.Itoa(start), strconv.Itoa(n))
	cmd.Env = os.Environ()
	out, err := cmd.Output()
	done := false
	for _, line := range strings.Split(string(out), "\n") {
		switch {
		case strings.HasPrefix(line, "FINDING "):
			var f struct {
				Key, What, Kind string
				Case            json.RawMessage
			}
			if json.Unmarshal([]byte(line[8:]), &f) == nil {
				r.Violation(f.Key+"@go1.26.8", f.What, f.Kind, f.Case)
			}
		case strings.HasPrefix(line, "LIVEDONE "):
			var d struct {
				Counters map[string]int64
				Kinds    []string
				Go       string
			}
			if json.Unmarshal([]byte(line[9:]), &d) == nil {
				done = true
				r.Eval(int(d.Counters["live_rounds"]))
				r.Set("second_toolchain", d.Go)
				r.Set("second_toolchain_live_rounds", d.Counters["live_rounds"])
				r.Set("second_toolchain_known_goroutines_checked", d.Counters["live_known_goroutines_checked"])
				for _, k := range d.Kinds {
					r.Mark("live_kinds_"+d.Go, k)
				}
			}
		}
	}
	if !done {
		r.Violation("live-worker-died@go1.26.8", fmt.Sprintf("live rounds under go1.26.8 died: %v", err), "live", nil)
	}
}
