package main

import (
	"bytes"
	"context"
	"fmt"
	"os"
	"os/exec"
	"path/filepath"
	"strings"
	"time"

	"verifharness/core"
	"verifharness/gen"
)

// straceFaults (thorough tier of C10): the pp binary reads its input from a
// file while strace fails the k-th read(2) on that file with EIO, for every k.
// Optional fault injector only; the deciding oracle is still exit status,
// stderr and the pass-through bytes.
func straceFaults(r *core.Run, inputs int) {
	if _, err := exec.LookPath("strace"); err != nil {
		r.Set("strace", "not installed: read-fault injection on the pp binary skipped")
		return
	}
	for i := 0; i < inputs; i++ {
		rr := core.NewRand(r.Seed, 1011, uint64(i))
		eol := "\n"
		var t0 strings.Builder
		for t0.Len() < 20000+rr.Intn(30000) {
			t0.WriteString(gen.JunkLine(rr, &gen.JunkCfg{}))
			t0.WriteString(eol)
		}
		d := gen.GenDump(rr, &gen.Cfg{MaxG: 40, MaxFrames: 8, MaxDepth: 2, NoUnavail: true}, 0)
		d.F = gen.Format{FileIndent: "\t"}
		in := append([]byte(t0.String()), d.Render()...)
		in = append(in, []byte("trailer line 1\n"+strings.Repeat("z", 9000)+"\ntrailer end\n")...)
		file := filepath.Join(os.Getenv("VERIF_WORK"), fmt.Sprintf("strace-in-%d.txt", i))
		if err := os.WriteFile(file, in, 0o644); err != nil {
			r.Broken(err.Error())
			return
		}
		clean := runPP(nil, nil, "-rebase=false", file)
		if clean.Exit != 0 {
			r.Violation("strace-clean-run", fmt.Sprintf("pp exits %d on a well-formed file: %s", clean.Exit, b2s(clean.Stderr, 200)), "strace", map[string]any{"input": i})
			continue
		}
		faulted := 0
		for k := 1; k <= 12; k++ {
			ctx, cancel := context.WithTimeout(context.Background(), 120*time.Second)
			cmd := exec.CommandContext(ctx, "strace", "-f", "-o", "/dev/null", "-P", file, "-e", "trace=read", "-e", fmt.Sprintf("inject=read:error=EIO:when=%d", k), ppPath(), "-rebase=false", file)
			cmd.Env = []string{"GOTRACEBACK=all", "TERM=dumb", "PATH=" + os.Getenv("PATH"), "HOME=" + os.Getenv("VERIF_WORK")}
			var so, se bytes.Buffer
			cmd.Stdout, cmd.Stderr = &so, &se
			err := cmd.Run()
			timedOut := ctx.Err() != nil
			cancel()
			r.Eval(1)
			if timedOut {
				r.Inconclusive("strace watchdog fired")
				continue
			}
			exit := 0
			if ee, ok := err.(*exec.ExitError); ok {
				exit = ee.ExitCode()
			}
			if exit == 0 {
				// the k-th read does not exist: fault-free run
				if !bytes.Equal(so.Bytes(), clean.Stdout) {
					r.Violation("strace-nondeterministic", "fault-free run under strace prints something else", "strace", map[string]any{"input": i, "k": k})
				}
				break
			}
			faulted++
			if exit != 1 || !bytes.Contains(se.Bytes(), []byte("Failed:")) {
				r.Violation("read-fault-not-reported", fmt.Sprintf("read #%d failed with EIO: pp exit=%d stderr=%q (want exit 1 and 'Failed:')", k, exit, b2s(se.Bytes(), 300)), "strace", map[string]any{"input": i, "k": k})
				continue
			}
			n := so.Len()
			if n > t0.Len() {
				n = t0.Len()
			}
			if !bytes.Equal(so.Bytes()[:n], []byte(t0.String())[:n]) {
				r.Violation("read-fault-garbles-output", fmt.Sprintf("read #%d failed: the pass-through text before the dump is altered", k), "strace", map[string]any{"input": i, "k": k})
			}
		}
		r.Count("strace_faulted_runs", faulted)
		r.DistinctN(faulted)
		_ = os.Remove(file)
	}
}
