package main

import (
	"encoding/json"
	"fmt"

	"github.com/maruel/panicparse/v2/stack"

	"verifharness/core"
	"verifharness/gen"
)

func init() {
	checks["C13"] = check{level: "exploration", run: runC13, replay: replayC13}
}

type ordVariant struct {
	Desc string
	Sig  stack.Signature
}

func ordFramePool() []stack.Call {
	mk := func(fn, file string, line int, loc stack.Location) stack.Call {
		return gen.MkCall(fn, file, line, loc, stack.Args{})
	}
	return []stack.Call{
		mk("fmt.Println", "/goroot/src/fmt/print.go", 10, stack.Stdlib),
		mk("example.com/mod/pkg.F", "/w/mod/pkg/f.go", 20, stack.GoMod),
		mk("github.com/gp/lib.G", "/gopath/src/github.com/gp/lib/g.go", 30, stack.GOPATH),
		mk("github.com/dep/x.H", "/gopath/pkg/mod/github.com/dep/x@v1.0.0/h.go", 40, stack.GoPkg),
		mk("unknown/y.K", "/somewhere/y/k.go", 50, stack.LocationUnknown),
		mk("main.run", "/w/mod/main.go", 60, stack.GoMod),
		mk("main.main", "/somewhere/main.go", 70, stack.LocationUnknown),
		mk("fmt.Println", "/goroot/src/fmt/print.go", 11, stack.Stdlib),      // line differs
		mk("fmt.Printf", "/goroot/src/fmt/print.go", 10, stack.Stdlib),       // function differs
		mk("fmt.Println", "/goroot/src/fmt/format.go", 10, stack.Stdlib),     // file differs
		mk("main.main", "/tmp/go-build/_test/_testmain.go", 5, stack.Stdlib), // package main with stdlib class
		// the same frame as the first one with other argument values, and under another root: the comparator must
		// treat them like the first (it looks at function, directory/file name and line only)
		withArgs(mk("fmt.Println", "/goroot/src/fmt/print.go", 10, stack.Stdlib), 1, 0xc000012340),
		withArgs(mk("fmt.Println", "/goroot/src/fmt/print.go", 10, stack.Stdlib), 2, 0xc000012348),
		mk("fmt.Println", "/other/root/src/fmt/print.go", 10, stack.Stdlib),
	}
}

func withArgs(c stack.Call, v ...uint64) stack.Call {
	for _, x := range v {
		c.Args.Values = append(c.Args.Values, gen.Sc(x))
	}
	return c
}

func ordUniverse(full bool) []ordVariant {
	mod3 := 61
	if full {
		mod3 = 9
	}
	pool := ordFramePool()
	names := []string{"std", "mod", "gopath", "modcache", "unk", "main@mod", "main@unk", "std'line", "std'fn", "std'file", "testmain", "std(1,p)", "std(2,q)", "std@otherroot"}
	var stacks [][]int
	stacks = append(stacks, nil)
	np := len(pool)
	for i := 0; i < np; i++ {
		stacks = append(stacks, []int{i})
	}
	for i := 0; i < np; i++ {
		for j := 0; j < np; j++ {
			if true {
				stacks = append(stacks, []int{i, j})
			}
		}
	}
	for i := 0; i < np; i++ {
		for j := 0; j < np; j++ {
			for k := 0; k < np; k++ {
				if (i*5+j*3+k*11)%mod3 == 0 {
					stacks = append(stacks, []int{i, j, k})
				}
			}
		}
	}
	var out []ordVariant
	for si, st := range stacks {
		var s stack.Stack
		desc := "["
		for _, k := range st {
			s.Calls = append(s.Calls, pool[k])
			desc += names[k] + " "
		}
		desc += "]"
		for v := 0; v < 4; v++ {
			_ = si
			sig := stack.Signature{State: []string{"chan receive", "select"}[v&1], Locked: v&2 != 0, Stack: s}
			out = append(out, ordVariant{Desc: fmt.Sprintf("%s %s locked=%v", desc, sig.State, sig.Locked), Sig: sig})
		}
		if len(st) == 1 || (len(st) == 2 && st[0] == st[1]) {
			// the same stack cut short by the runtime (elided frames): truncation does not make a stack more relevant
			es := s
			es.Elided = true
			sig := stack.Signature{State: "select", Stack: es}
			out = append(out, ordVariant{Desc: desc + " elided select locked=false", Sig: sig})
		}
	}
	return out
}

type ordCase struct {
	Full bool   `json:"full"`
	Idx  []int  `json:"idx"`
	Law  string `json:"law,omitempty"`
	// HighFirst: ids descend in printed order and the first signature occurs again later.
	HighFirst bool `json:"high_first,omitempty"`
}

func hasUserCode(s *stack.Stack) bool {
	for i := range s.Calls {
		c := &s.Calls[i]
		if c.Func.IsPkgMain || c.Location == stack.GoMod || c.Location == stack.GOPATH || c.Location == stack.GoPkg {
			return true
		}
	}
	return false
}

// mainCount, allStdlibClass, hasKnownUserClass: for the law "with as many package-main frames, a stack with module,
// GOPATH or module-cache frames comes before a stack whose frames are all of the standard-library class".
func mainCount(s *stack.Stack) int {
	n := 0
	for i := range s.Calls {
		if s.Calls[i].Func.IsPkgMain {
			n++
		}
	}
	return n
}

func allStdlibClass(s *stack.Stack) bool {
	if len(s.Calls) == 0 {
		return false
	}
	for i := range s.Calls {
		if s.Calls[i].Location != stack.Stdlib {
			return false
		}
	}
	return true
}

func hasKnownUserClass(s *stack.Stack) bool {
	for i := range s.Calls {
		if l := s.Calls[i].Location; l == stack.GoMod || l == stack.GOPATH || l == stack.GoPkg {
			return true
		}
	}
	return false
}

func allStdlib(s *stack.Stack) bool {
	if len(s.Calls) == 0 {
		return false
	}
	for i := range s.Calls {
		if s.Calls[i].Location != stack.Stdlib || s.Calls[i].Func.IsPkgMain {
			return false
		}
	}
	return true
}

// ordEvalSnapshot: black box - bucket order of an aggregation must be a
// linear extension of the comparator, First bucket first, user code before
// all-stdlib buckets.
func ordEvalSnapshot(r *core.Run, u []ordVariant, c *ordCase) {
	var sigs []*stack.Signature
	for _, k := range c.Idx {
		sigs = append(sigs, &u[k].Sig)
	}
	s := gen.MkSnapshot(sigs)
	if c.HighFirst {
		// the crashing goroutine is printed first but does not have the lowest id
		for i, g := range s.Goroutines {
			g.ID = len(s.Goroutines) - i
		}
	}
	var a *stack.Aggregated
	var panicked any
	func() {
		defer func() { panicked = recover() }()
		a = s.Aggregate(stack.AnyValue)
	}()
	r.Eval(1)
	if panicked != nil {
		r.Violation("aggregate-panic", fmt.Sprintf("Aggregate panicked while ordering buckets: %v", panicked), "ordsnap", c)
		return
	}
	report := func(key, what string) {
		var d []string
		for _, k := range c.Idx {
			d = append(d, u[k].Desc)
		}
		r.Violation(key, what+fmt.Sprintf(" | goroutines: %q", d), "ordsnap", c)
	}
	if len(a.Buckets) == 0 {
		return
	}
	if !a.Buckets[0].First {
		report("first-bucket-not-first", "the bucket holding the crashing goroutine is not presented first")
		return
	}
	holds := false
	for _, id := range a.Buckets[0].IDs {
		holds = holds || id == s.Goroutines[0].ID
	}
	if !holds {
		report("first-bucket-not-first", fmt.Sprintf("the first bucket (ids %v) does not hold the crashing goroutine %d", a.Buckets[0].IDs, s.Goroutines[0].ID))
		return
	}
	// what a bucket contains is decided on its member goroutines as given, not on what the bucket signature claims
	byID := map[int]*stack.Goroutine{}
	for _, g := range s.Goroutines {
		byID[g.ID] = g
	}
	memberStack := func(b *stack.Bucket) *stack.Stack {
		if g := byID[b.IDs[0]]; g != nil {
			return &g.Stack
		}
		return &b.Stack
	}
	for i := 1; i < len(a.Buckets); i++ {
		for j := i + 1; j < len(a.Buckets); j++ {
			bi, bj := a.Buckets[i], a.Buckets[j]
			if len(bi.IDs) != 0 && len(bj.IDs) != 0 && allStdlib(memberStack(bi)) && hasUserCode(memberStack(bj)) {
				report("stdlib-before-user-code", fmt.Sprintf("bucket of all-stdlib goroutines (ids %v) presented before a bucket of goroutines with main/module/GOPATH/module-cache frames (ids %v)", bi.IDs, bj.IDs))
				return
			}
			if stack.VerifSignatureLess(&bj.Signature, &bi.Signature) {
				report("order-contradicts-comparator", fmt.Sprintf("bucket %d (ids %v) is presented before bucket %d (ids %v) although the comparator orders them the other way", i, bi.IDs, j, bj.IDs))
				return
			}
			if allStdlib(&bi.Stack) && hasUserCode(&bj.Stack) {
				report("stdlib-before-user-code", fmt.Sprintf("all-stdlib bucket (ids %v) presented before a bucket with main/module/GOPATH/module-cache frames (ids %v)", bi.IDs, bj.IDs))
				return
			}
		}
	}
}

func runC13(r *core.Run) {
	r.Rule("(a) the four strict-weak-order laws (irreflexive, asymmetric, transitive, transitive incomparability) of the real comparator (through the hook) on ALL triples of a signature universe varying stack length 0..3, per-frame location class (5), package-main membership, function/file/line, lock flag, state; " +
		"(b) the stated consequence on all pairs: all-stdlib after main/module/GOPATH/module-cache code; (d) black box on the whole comparison incl. its last tie-breaks: buckets that tie under the signature comparison (same frames, other creators) with varying sleep ranges and sizes, aggregated in 10 arrival orders - two buckets may swap places only if they are in arrival order everywhere; (e) black box on transitive incomparability: buckets that tie under the signature comparison but differ in creator, argument values, upper directories or the elision flag, and in size - two buckets alone in both arrival orders tell whether they are tied or strictly ordered; 'tied' must be transitive over all triples and every larger aggregation must present strictly ordered buckets in that order; (c) black box: aggregations of 2..7 goroutines from the universe - bucket order is a linear extension of the comparator, First bucket first, user code before all-stdlib. " +
		"distinct by construction (triples) / by hash (snapshots); non-trivial = the three signatures are pairwise different")
	full := !r.Quick()
	u := ordUniverse(full)
	n := len(u)
	r.Set("universe_size", n)
	less := make([][]bool, n)
	for i := range less {
		less[i] = make([]bool, n)
		for j := range less[i] {
			func() {
				defer func() {
					if p := recover(); p != nil {
						r.Violation("comparator-panic", fmt.Sprintf("the comparator panicked (%v) on %q vs %q", p, u[i].Desc, u[j].Desc), "law", &ordCase{Full: full, Idx: []int{i, j}, Law: "panic"})
					}
				}()
				less[i][j] = stack.VerifSignatureLess(&u[i].Sig, &u[j].Sig)
			}()
		}
	}
	r.Eval(n * n)
	incomp := func(a, b int) bool { return !less[a][b] && !less[b][a] }
	report := func(law string, idx ...int) {
		var d []string
		for _, k := range idx {
			d = append(d, u[k].Desc)
		}
		r.Violation("law:"+law, fmt.Sprintf("comparator violates %s on %q", law, d), "law", &ordCase{Full: full, Idx: idx, Law: law})
	}
	core.Parallel(n, workers(), func(a int) {
		if less[a][a] {
			report("irreflexivity", a)
		}
		for b := 0; b < n; b++ {
			if less[a][b] && less[b][a] {
				report("asymmetry", a, b)
			}
			// stated consequence
			if allStdlib(&u[a].Sig.Stack) && hasUserCode(&u[b].Sig.Stack) && !less[b][a] {
				report("user-code-before-stdlib", a, b)
			}
			if allStdlibClass(&u[a].Sig.Stack) && hasKnownUserClass(&u[b].Sig.Stack) && mainCount(&u[b].Sig.Stack) >= mainCount(&u[a].Sig.Stack) && !less[b][a] {
				report("non-stdlib-code-before-stdlib-class", a, b)
			}
			for c := 0; c < n; c++ {
				if less[a][b] && less[b][c] && !less[a][c] {
					report("transitivity", a, b, c)
				}
				if incomp(a, b) && incomp(b, c) && !incomp(a, c) {
					report("transitivity-of-incomparability", a, b, c)
				}
			}
		}
		r.DistinctN(n * n)
	})
	r.Count("triples_checked", n*n*n)
	r.Eval(n * n * n) // every triple is one evaluation of the four laws on the cached comparator results
	r.Exhaustive(true)
	// black box
	m := r.N(20000, 5000000)
	core.Parallel(m, workers(), func(i int) {
		rr := core.NewRand(r.Seed, 13, uint64(i))
		k := 2 + rr.Intn(6)
		c := &ordCase{Full: full}
		for len(c.Idx) < k {
			c.Idx = append(c.Idx, rr.Intn(n))
		}
		if i%3 == 0 {
			c.HighFirst = true
			c.Idx = append(c.Idx, c.Idx[0]) // the crashing goroutine's signature again, with a lower id
		}
		ordEvalSnapshot(r, u, c)
		r.Distinct(core.HashStr(fmt.Sprint(c.Idx)))
		if i < 2 {
			var d []string
			for _, x := range c.Idx {
				d = append(d, u[x].Desc)
			}
			r.Sample(map[string]any{"snapshot_signatures": d})
		}
	})
	c13Perm(r)
	c13Pair(r)
	c13Deep(r)
	r.Sample(map[string]any{"triple_example": []string{u[1].Desc, u[n/3].Desc, u[n-2].Desc}})
}

func replayC13(r *core.Run, kind string, raw json.RawMessage) {
	if kind == "pair" {
		var pc pairCase
		if err := json.Unmarshal(raw, &pc); err != nil {
			r.Broken(err.Error())
			return
		}
		c13PairEval(r, &pc)
		return
	}
	if kind == "perm" {
		var pc permCase
		if err := json.Unmarshal(raw, &pc); err != nil {
			r.Broken(err.Error())
			return
		}
		c13PermEval(r, &pc)
		return
	}
	var c ordCase
	if err := json.Unmarshal(raw, &c); err != nil {
		r.Broken(err.Error())
		return
	}
	u := ordUniverse(c.Full)
	switch kind {
	case "ordsnap":
		ordEvalSnapshot(r, u, &c)
	case "law":
		l := func(a, b int) bool { return stack.VerifSignatureLess(&u[c.Idx[a]].Sig, &u[c.Idx[b]].Sig) }
		inc := func(a, b int) bool { return !l(a, b) && !l(b, a) }
		bad := false
		switch c.Law {
		case "irreflexivity":
			bad = l(0, 0)
		case "asymmetry":
			bad = l(0, 1) && l(1, 0)
		case "user-code-before-stdlib":
			bad = !l(1, 0)
		case "transitivity":
			bad = l(0, 1) && l(1, 2) && !l(0, 2)
		case "transitivity-of-incomparability":
			bad = inc(0, 1) && inc(1, 2) && !inc(0, 2)
		}
		if bad {
			r.Violation("law:"+c.Law, "reproduced", "law", &c)
		}
	}
}
