package main

import (
	"bytes"
	"io"
	"regexp"
	"strings"

	"github.com/maruel/panicparse/v2/stack"

	"verifharness/sched"
)

// plainOpts are options without disk access and without naming.
func plainOpts() *stack.Opts {
	return &stack.Opts{}
}

func namingOpts() *stack.Opts {
	return &stack.Opts{NameArguments: true}
}

// scanResult is everything one ScanSnapshot call produced.
type scanResult struct {
	Snap   *stack.Snapshot
	Prefix []byte
	Suffix []byte
	Rest   []byte // bytes the reader still holds
	Err    error
	Panic  any
	Trace  []sched.Event
	Reads  int
}

// scanOnce runs ScanSnapshot on data delivered by a scripted reader.
func scanOnce(data []byte, opts *stack.Opts, chunks []int, rest int) (res scanResult) {
	return scanOnceSrc(&sched.Scripted{Data: data, Chunks: chunks, Rest: rest}, opts)
}

// scanOnceSrc is scanOnce over a prepared scripted source.
func scanOnceSrc(src *sched.Scripted, opts *stack.Opts) (res scanResult) {
	var tr []sched.Event
	ch := &sched.Chain{Src: src, Trace: &tr}
	var w bytes.Buffer
	defer func() {
		if p := recover(); p != nil {
			res.Panic = p
		}
		res.Prefix = w.Bytes()
		res.Rest = ch.Remaining()
		res.Trace = tr
		res.Reads = src.Calls
	}()
	s, suffix, err := stack.ScanSnapshot(ch, &w, opts)
	res.Snap, res.Suffix, res.Err = s, suffix, err
	return
}

// scanAll runs a plain single-Read scan.
func scanAll(data []byte, opts *stack.Opts) (s *stack.Snapshot, prefix, suffix []byte, err error) {
	var w bytes.Buffer
	s, suffix, err = stack.ScanSnapshot(bytes.NewReader(data), &w, opts)
	return s, w.Bytes(), suffix, err
}

var indexRe = regexp.MustCompile(`\[\d+\]`)

// diffKey turns a diff message into a stable key: the path of the first
// difference with indices removed.
func diffKey(d string) string {
	f := strings.FieldsFunc(d, func(r rune) bool { return r == '=' || r == ':' || r == ' ' })
	if len(f) == 0 {
		return "diff"
	}
	if f[0] != "" && f[0][0] >= '0' && f[0][0] <= '9' {
		return "count"
	}
	return indexRe.ReplaceAllString(f[0], "")
}

func errIsEOFOrNil(err error) bool { return err == nil || err == io.EOF }

func b2s(b []byte, n int) string {
	if len(b) > n {
		return string(b[:n]) + "..."
	}
	return string(b)
}
