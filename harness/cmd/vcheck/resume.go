package main

// M-RESUME / M-CONS: drives the documented protocol
//   in = io.MultiReader(bytes.NewReader(suffix), in)
// over one stream until EOF or error, with per-call byte accounting.

import (
	"bytes"
	"fmt"
	"io"
	"runtime/debug"

	"github.com/maruel/panicparse/v2/stack"

	"verifharness/sched"
)

type resumeCall struct {
	Snap     *stack.Snapshot
	Prefix   []byte // bytes forwarded during this call
	Suffix   []byte
	Err      error
	Consumed []byte // input bytes this call took from the stream (= P ++ X ++ S)
	Withheld []byte // X: consumed input that is neither forwarded nor returned
	Events   []sched.Event
	ConsErr  string // accounting failure, "" if the identity holds
}

type resumeResult struct {
	Calls      []resumeCall
	Out        []byte // everything that passed through, in order (prefix writes, then final suffix and unread input)
	Snaps      []*stack.Snapshot
	FinalErr   error
	Panic      any
	PanicStack string
	NoProgress bool
	TooMany    bool
	Reads      int
}

// resumeAll scans data repeatedly. stopOnErr follows the CLI (a non-EOF error
// ends the loop and the remainder is flushed); otherwise the loop continues
// after parse errors as a tolerant caller would.
func resumeAll(data []byte, opts *stack.Opts, chunks []int, rest int, stopOnErr bool, maxCalls int) (res *resumeResult) {
	return resumeAllSrc(&sched.Scripted{Data: data, Chunks: chunks, Rest: rest}, opts, stopOnErr, maxCalls)
}

// resumeAllSrc is resumeAll over a prepared scripted source (fault modes).
func resumeAllSrc(src *sched.Scripted, opts *stack.Opts, stopOnErr bool, maxCalls int) (res *resumeResult) {
	res = &resumeResult{}
	var tr []sched.Event
	ch := &sched.Chain{Src: src, Trace: &tr}
	var out bytes.Buffer
	defer func() {
		if p := recover(); p != nil {
			res.Panic = p
			res.PanicStack = string(debug.Stack())
		}
		res.Out = out.Bytes()
		res.Reads = src.Calls
	}()
	for n := 0; ; n++ {
		if n >= maxCalls {
			res.TooMany = true
			return
		}
		before := append([]byte(nil), ch.Remaining()...)
		tr = nil
		var w bytes.Buffer
		s, suffix, err := stack.ScanSnapshot(ch, &w, opts)
		after := ch.Remaining()
		c := resumeCall{Snap: s, Prefix: append([]byte(nil), w.Bytes()...), Suffix: suffix, Err: err, Events: tr}
		if len(after) > len(before) || !bytes.HasSuffix(before, after) {
			c.ConsErr = "reader state inconsistent"
		} else {
			c.Consumed = before[:len(before)-len(after)]
			switch {
			case !bytes.HasPrefix(c.Consumed, c.Prefix):
				c.ConsErr = fmt.Sprintf("forwarded bytes are not a prefix of the consumed input: forwarded %q", b2s(c.Prefix, 120))
			case !bytes.HasSuffix(c.Consumed, suffix):
				c.ConsErr = fmt.Sprintf("returned remainder is not the tail of the consumed input: remainder %q", b2s(suffix, 120))
			case len(c.Prefix)+len(suffix) > len(c.Consumed):
				c.ConsErr = "forwarded and returned bytes overlap (duplication)"
			default:
				c.Withheld = c.Consumed[len(c.Prefix) : len(c.Consumed)-len(suffix)]
			}
		}
		out.Write(c.Prefix)
		res.Calls = append(res.Calls, c)
		if s != nil {
			res.Snaps = append(res.Snaps, s)
		}
		if err == nil || (!stopOnErr && err != io.EOF && len(suffix)+len(after) > 0) {
			if len(suffix)+len(after) >= len(before) && len(before) > 0 || (len(before) == 0 && err == nil) {
				res.NoProgress = true
				res.FinalErr = err
				out.Write(suffix)
				out.Write(after)
				return
			}
			ch.Unread(suffix)
			continue
		}
		res.FinalErr = err
		out.Write(suffix)
		out.Write(ch.Remaining())
		return
	}
}

// hookWithheld recomputes X from the scan hook: the lines the scanner
// reported as consumed, located at or after the end of the forwarded bytes.
func hookWithheld(c *resumeCall) []byte {
	var x []byte
	off := 0
	for _, e := range c.Events {
		if e.Consumed && off >= len(c.Prefix) {
			x = append(x, e.Line...)
		}
		off += len(e.Line)
	}
	return x
}
