package main

import (
	"testing"

	"verifharness/core"
	"verifharness/gen"
)

// FuzzPipeline is the coverage-guided part of C03's thorough tier (Go native
// fuzzing): every input goes through the whole pipeline of pipeline().
// Seeds: one input per line kind of both grammars plus generated dumps,
// race reports and streams.
func FuzzPipeline(f *testing.F) {
	for _, l := range gen.SeedLines {
		f.Add([]byte(l + "\n"))
	}
	for i := 0; i < 40; i++ {
		f.Add(gen.MutationBase(core.NewRand(1, 33, uint64(i))))
	}
	f.Fuzz(func(t *testing.T, in []byte) {
		if len(in) > 64<<10 {
			return
		}
		for _, o := range []string{"naming", "plain"} {
			if key, what, _ := pipelineHTML(in, o, core.Hash64(in)%8 == 0); key != "" && key != "superlinear-root-guessing" {
				t.Fatalf("%s: %s", key, what)
			}
		}
	})
}
