package main

// Shared engine of C04 / C05 / C12: one case list (multisets and
// permutations over the G-SNAP universe, large random snapshots, parsed
// generated dumps), three separate oracles.

import (
	"encoding/json"
	"fmt"
	"sort"
	"sync/atomic"

	"github.com/maruel/panicparse/v2/stack"

	"verifharness/core"
	"verifharness/gen"
	"verifharness/mon"
)

func init() {
	checks["C04"] = check{level: "exploration", run: func(r *core.Run) { aggEngine(r) }, replay: replayAgg}
	checks["C05"] = check{level: "exploration", run: func(r *core.Run) { aggEngine(r) }, replay: replayAgg}
	checks["C12"] = check{level: "exploration", run: func(r *core.Run) { aggEngine(r) }, replay: replayAgg}
}

// editTick samples the edited-snapshot step for C05 (one snapshot in four; always in a replay).
var editTick atomic.Int64

var allLevels = []stack.Similarity{stack.ExactFlags, stack.ExactLines, stack.AnyPointer, stack.AnyValue}
var levelNames = []string{"ExactFlags", "ExactLines", "AnyPointer", "AnyValue"}

type aggCase struct {
	Universe string      `json:"universe,omitempty"`
	Idx      []int       `json:"idx,omitempty"` // variant indices, in snapshot order
	Descs    []string    `json:"descs,omitempty"`
	Dump     *gen.Dump   `json:"dump,omitempty"` // alternatively: a generated dump to parse
	Stream   *gen.Stream `json:"-"`
}

var universes = map[string][]gen.SnapVariant{}

func universe(name string) []gen.SnapVariant {
	if u, ok := universes[name]; ok {
		return u
	}
	u := gen.Universe(name)
	universes[name] = u
	return u
}

func (c *aggCase) snapshot() *stack.Snapshot {
	if c.Dump != nil {
		s, _, _, _ := scanAll(c.Dump.Render(), namingOpts())
		return s
	}
	u := universe(c.Universe)
	sigs := make([]*stack.Signature, len(c.Idx))
	for i, k := range c.Idx {
		sigs[i] = &u[k].Sig
	}
	s := gen.MkSnapshot(sigs)
	sum := 0
	for _, k := range c.Idx {
		sum += k
	}
	if sum%3 != 0 {
		// two thirds of the snapshots look as after path guessing and source analysis
		gen.Resolve(s)
	}
	if sum%7 == 2 {
		// a race report: every goroutine carries an address, and the operations are listed in an order that is
		// not the order of the ids
		for i, g := range s.Goroutines {
			g.RaceAddr = 0xc000012340 + uint64(8*(i%2))
			g.RaceWrite = i%2 == 0
			g.ID = 100 - i
		}
	}
	if n := len(s.Goroutines); n > 1 && sum%5 == 1 {
		// a snapshot constructed directly (e.g. goroutines sorted by a caller): the crashing goroutine is not the
		// first element of the list
		s.Goroutines[0].First = false
		s.Goroutines[1+sum%(n-1)].First = true
	}
	return s
}

// aggEvalSnap applies the oracle of r.Prop to all four aggregations of s.
// Returns the partitions (for the permutation check).
func aggEvalSnap(r *core.Run, s *stack.Snapshot, c *aggCase) [4][][]int {
	var parts [4][][]int
	report := func(key, what string) {
		if c.Universe != "" && c.Descs == nil {
			u := universe(c.Universe)
			for _, k := range c.Idx {
				c.Descs = append(c.Descs, u[k].Desc)
			}
		}
		r.Violation(key, what, "agg", c)
	}
	byID := map[int]*stack.Goroutine{}
	for _, g := range s.Goroutines {
		byID[g.ID] = g
	}
	// Levels fine to coarse, then back to fine on the same snapshot: what an earlier (coarser) aggregation did
	// must not show in a later one.
	for step, li := range []int{0, 1, 2, 3, 2, 1, 0} {
		lvl := allLevels[li]
		again := step > 3
		var a *stack.Aggregated
		var panicked any
		func() {
			defer func() { panicked = recover() }()
			a = s.Aggregate(lvl)
		}()
		r.Eval(1)
		if panicked != nil {
			report("panic/"+levelNames[li], fmt.Sprintf("Aggregate(%s) panicked: %v", levelNames[li], panicked))
			return parts
		}
		got := mon.GotPartition(a)
		if !again {
			parts[li] = got
		}
		tag := levelNames[li]
		if again {
			tag += "-after-coarser"
		}
		switch r.Prop {
		case "C04":
			if k, w := mon.CheckPartition(s, a); k != "" {
				report(k, fmt.Sprintf("%s: %s", levelNames[li], w))
				return parts
			}
		case "C05":
			want := mon.RefPartition(s, lvl)
			if !mon.PartEq(got, want) {
				key := "split-similar"
				if len(got) < len(want) {
					key = "merged-dissimilar"
				}
				report(key+"/"+tag, fmt.Sprintf("%s: buckets %v, similarity classes %v", tag, got, want))
				return parts
			}
			if li > 0 && !again && !mon.Refines(parts[li-1], got) {
				report("refinement/"+levelNames[li], fmt.Sprintf("%s partition %v does not refine %s partition %v", levelNames[li-1], parts[li-1], levelNames[li], got))
				return parts
			}
		case "C12":
			for _, b := range a.Buckets {
				var members []*stack.Goroutine
				for _, id := range b.IDs {
					if g := byID[id]; g != nil {
						members = append(members, g)
					}
				}
				if k, w := mon.CheckBucketSignature(b, members); k != "" {
					report(k, fmt.Sprintf("%s bucket ids %v: %s", tag, b.IDs, w))
					return parts
				}
			}
		}
	}
	// A snapshot is a plain exported struct: a caller may filter its goroutines, or work on a copy of the struct
	// with another goroutine list, and aggregate again. Each aggregation answers for the goroutines the snapshot
	// holds at that moment.
	if len(s.Goroutines) >= 2 && (r.Prop == "C04" || (r.Prop == "C05" && (r.ReplayMode || editTick.Add(1)%4 == 0))) {
		cp := *s
		cp.Goroutines = append([]*stack.Goroutine{}, s.Goroutines[1:]...)
		edited := []*stack.Snapshot{&cp}
		s.Goroutines = s.Goroutines[:len(s.Goroutines)-1]
		edited = append(edited, s)
		for ei, es := range edited {
			for li, lvl := range allLevels {
				var a *stack.Aggregated
				var panicked any
				func() {
					defer func() { panicked = recover() }()
					a = es.Aggregate(lvl)
				}()
				r.Eval(1)
				tag := levelNames[li] + []string{"/copy-without-first", "/last-goroutine-removed"}[ei]
				if panicked != nil {
					report("panic/"+tag, fmt.Sprintf("Aggregate panicked: %v", panicked))
					return parts
				}
				switch r.Prop {
				case "C04":
					if k, w := mon.CheckPartition(es, a); k != "" {
						report(k+"/edited-snapshot", fmt.Sprintf("%s: %s", tag, w))
						return parts
					}
				case "C05":
					if got, want := mon.GotPartition(a), mon.RefPartition(es, lvl); !mon.PartEq(got, want) {
						report("edited-snapshot/"+levelNames[li], fmt.Sprintf("%s: buckets %v, similarity classes %v", tag, got, want))
						return parts
					}
				}
			}
		}
	}
	return parts
}

// permutations of [0,n)
func permutations(n int) [][]int {
	var out [][]int
	p := make([]int, n)
	for i := range p {
		p[i] = i
	}
	var rec func(k int)
	rec = func(k int) {
		if k == n {
			out = append(out, append([]int{}, p...))
			return
		}
		for i := k; i < n; i++ {
			p[k], p[i] = p[i], p[k]
			rec(k + 1)
			p[k], p[i] = p[i], p[k]
		}
	}
	rec(0)
	return out
}

// aggEvalMultiset checks one multiset in every arrival order.
func aggEvalMultiset(r *core.Run, uname string, idx []int, allPerms bool) {
	perms := [][]int{nil}
	if allPerms {
		perms = permutations(len(idx))
	}
	var base [4][][]int
	seen := map[string]bool{}
	for pi, p := range perms {
		order := idx
		if p != nil {
			order = make([]int, len(idx))
			for i, k := range p {
				order[i] = idx[k]
			}
			key := fmt.Sprint(order)
			if seen[key] {
				continue
			}
			seen[key] = true
		}
		c := &aggCase{Universe: uname, Idx: order}
		s := c.snapshot()
		posOf := map[int]int{} // goroutine id -> position in the snapshot (ids are not always 1..n)
		for i, g := range s.Goroutines {
			posOf[g.ID] = i
		}
		parts := aggEvalSnap(r, s, c)
		if r.Prop != "C05" || p == nil {
			continue
		}
		// order independence: map ids back to elements of the multiset
		var norm [4][][]int
		for li := range parts {
			for _, cls := range parts[li] {
				var m []int
				for _, id := range cls {
					m = append(m, p[posOf[id]])
				}
				sort.Ints(m)
				norm[li] = append(norm[li], m)
			}
			sort.Slice(norm[li], func(i, j int) bool { return norm[li][i][0] < norm[li][j][0] })
		}
		if pi == 0 {
			base = norm
			continue
		}
		for li := range norm {
			// compare as partitions of variant *values* (equal variants are interchangeable)
			if partSig(base[li], idx) != partSig(norm[li], idx) {
				r.Violation("order-dependence/"+levelNames[li], fmt.Sprintf("%s: partition depends on the order in which goroutines are printed: %v vs %v for elements %v", levelNames[li], base[li], norm[li], idx), "agg", c)
				return
			}
		}
	}
}

// partSig renders a partition of multiset positions as a partition of variant ids.
func partSig(p [][]int, idx []int) string {
	var cls []string
	for _, c := range p {
		var v []int
		for _, pos := range c {
			v = append(v, idx[pos])
		}
		sort.Ints(v)
		cls = append(cls, fmt.Sprint(v))
	}
	sort.Strings(cls)
	return fmt.Sprint(cls)
}

func aggEngine(r *core.Run) {
	r.Rule("one case list for C04/C05/C12: (a) ALL multisets of <= k goroutines from the G-SNAP universe (signatures differing in exactly the attributes each level must respect or ignore: state, lock, sleep, creator function/file/line, frame function/file/line, arity, elision, scalar vs pointer values, '_', nested aggregates), every multiset of size <= 3 in ALL arrival orders, x 4 levels; " +
		"(b) random snapshots of 10..3000 goroutines drawn with heavy repetition (many merges, re-keying on every merge); (c) snapshots parsed from generated dumps with few frame shapes and pointer pools. " +
		"C04: set arithmetic on bucket ids; C05: buckets == classes of an independently written canonical key, refinement chain, order independence, equivalence laws of the real relation through the hook; C12: bucket signature vs members position-wise. " +
		"distinct: multisets/permutations distinct by construction, others by hash; non-trivial: >= 2 goroutines")
	r.Assume("goroutine ids are unique within a snapshot (runtime guarantee)", "IsInaccurate and the parent id in 'created by f in goroutine N' are not varied (not stated by the properties)")
	uname := "small"
	if !r.Quick() {
		uname = "medium"
	}
	u := universe(uname)
	n := len(u)
	r.Set("universe_size", n)
	if !r.Quick() {
		// all pairs (both orders) of the large universe
		ul := universe("large")
		core.Parallel(len(ul), workers(), func(i int) {
			for j := i; j < len(ul); j++ {
				aggEvalMultiset(r, "large", []int{i, j}, true)
			}
			r.DistinctN(len(ul) - i)
		})
		r.Set("large_universe_size", len(ul))
	}
	// the empty snapshot: no bucket, and the aggregation still refers back to the snapshot it was made from
	if r.Prop == "C04" {
		for _, gs := range [][]*stack.Goroutine{nil, {}} {
			es := &stack.Snapshot{Goroutines: gs, LocalGOROOT: "/local/goroot", RemoteGOROOT: "/goroot"}
			for li, lvl := range allLevels {
				var a *stack.Aggregated
				var panicked any
				func() {
					defer func() { panicked = recover() }()
					a = es.Aggregate(lvl)
				}()
				r.Eval(1)
				if panicked != nil {
					r.Violation("panic/empty-snapshot", fmt.Sprintf("Aggregate(%s) of a snapshot without goroutines panicked: %v", levelNames[li], panicked), "agg", &aggCase{})
				} else if a == nil {
					r.Violation("nil-aggregation/empty-snapshot", "Aggregate of a snapshot without goroutines returned nil", "agg", &aggCase{})
				} else if k, w := mon.CheckPartition(es, a); k != "" {
					r.Violation(k+"/empty-snapshot", fmt.Sprintf("%s on a snapshot without goroutines: %s", levelNames[li], w), "agg", &aggCase{})
				}
			}
		}
	}
	// (a) all multisets of size <= 3 in all orders
	halfTriples := false // the star-shaped small universe made this unnecessary
	core.Parallel(n, workers(), func(i int) {
		aggEvalMultiset(r, uname, []int{i}, false)
		cnt := 1
		for j := i; j < n; j++ {
			aggEvalMultiset(r, uname, []int{i, j}, true)
			cnt++
			for k := j; k < n; k++ {
				if halfTriples && (i+j+k)%2 != int(r.Seed%2+2)%2 {
					continue // C05's quick tier: every other triple, which half depends on the seed
				}
				// triples: all orders for a deterministic third of them, canonical order otherwise
				aggEvalMultiset(r, uname, []int{i, j, k}, (i+j+k)%3 == int(r.Seed%3+3)%3)
				cnt++
			}
		}
		r.DistinctN(cnt - 1)
	})
	// multisets of 4 from the small universe
	us := universe("small")
	ns := len(us)
	if r.Quick() {
		ns = minI(ns, 40)
	}
	core.Parallel(ns, workers(), func(i int) {
		cnt := 0
		for j := i; j < ns; j++ {
			for k := j; k < ns; k++ {
				for l := k; l < ns; l++ {
					aggEvalMultiset(r, "small", []int{i, j, k, l}, false)
					cnt++
				}
			}
		}
		r.DistinctN(cnt)
	})
	r.Exhaustive(!halfTriples)
	// (b) large random snapshots
	nb := r.N(60, 1500)
	core.Parallel(nb, workers(), func(i int) {
		rr := core.NewRand(r.Seed, 4, uint64(i))
		size := 10 + rr.Intn(300)
		if i%10 == 0 {
			size = 1000 + rr.Intn(2000)
		}
		pool := 2 + rr.Intn(12)
		if i%3 == 0 {
			pool = 14 + rr.Intn(60) // many buckets (the bookkeeping grows), repeats arriving late
		}
		var pick []int
		for k := 0; k < pool; k++ {
			pick = append(pick, rr.Intn(n))
		}
		c := &aggCase{Universe: uname}
		for k := 0; k < size; k++ {
			c.Idx = append(c.Idx, pick[rr.Intn(pool)])
		}
		aggEvalSnap(r, c.snapshot(), c)
		r.Distinct(core.HashStr(fmt.Sprint(c.Idx)))
	})
	// (c) parsed generated dumps
	nc := r.N(1500, 60000)
	core.Parallel(nc, workers(), func(i int) {
		rr := core.NewRand(r.Seed, 5, uint64(i))
		cfg := &gen.Cfg{MaxG: 12, MaxFrames: 3, MaxDepth: 2, MaxArgs: 3, FewShapes: true, NoUnavail: i%3 == 0,
			PtrPool: []uint64{0xc000012340, 0xc000012348, 0xc0000a0000, 1 << 20, 7, 8}}
		d := gen.GenDump(rr, cfg, rr.Intn(864))
		// few states so that goroutines actually merge
		for gi := range d.Gs {
			d.Gs[gi].State = []string{"select", "chan receive"}[rr.Intn(2)]
			if rr.Chance(2, 3) {
				d.Gs[gi].Creator = nil
			}
			if len(d.Gs[gi].Frames) > 1 && rr.Chance(2, 3) {
				d.Gs[gi].Frames = d.Gs[gi].Frames[:1]
			}
		}
		if i%3 == 1 && len(d.Gs) > 0 {
			// a twin: one goroutine printed a second time under a fresh id, its pointer-looking arguments with the
			// other accuracy marker ("0xc000012340" / "0xc000012340?", a stale register copy of the same value): the
			// two are similar at every level, whatever names the pointers got
			var tw gen.Goroutine
			raw, _ := json.Marshal(&d.Gs[rr.Intn(len(d.Gs))])
			if json.Unmarshal(raw, &tw) == nil {
				for _, g := range d.Gs {
					if g.ID >= tw.ID {
						tw.ID = g.ID + 1
					}
				}
				var flip func(a []gen.Arg)
				flip = func(a []gen.Arg) {
					for k := range a {
						if a[k].Agg {
							flip(a[k].Fields)
						} else if !a[k].TooLarge && a[k].Value >= 0xc000000000 {
							a[k].Inaccurate = !a[k].Inaccurate
						}
					}
				}
				for fi := range tw.Frames {
					flip(tw.Frames[fi].Args.Vals)
				}
				d.Gs = append(d.Gs, tw)
				r.Count("parsed_dumps_with_an_accuracy_twin", 1)
			}
		}
		c := &aggCase{Dump: d}
		s := c.snapshot()
		if s == nil {
			return
		}
		aggEvalSnap(r, s, c)
		if len(s.Goroutines) >= 2 {
			r.Distinct(core.Hash64(d.Render()))
		}
		if i < 2 {
			r.Sample(map[string]any{"parsed_dump": b2s(d.Render(), 800)})
		}
	})
	if r.Prop == "C05" {
		if r.Quick() {
			similarLaws(r, "medium")
		} else {
			similarLaws(r, "large")
		}
	}
	r.Sample(map[string]any{"universe_examples": []string{u[0].Desc, u[1].Desc, u[n/2].Desc, u[n-1].Desc}})
}

// similarLaws checks through the hook that the real similarity relation is an
// equivalence on the universe (greedy bucketing is only correct for one) and
// that merging keeps the class of the key.
func similarLaws(r *core.Run, uname string) {
	u := universe(uname)
	n := len(u)
	if r.Quick() && n > 120 {
		n = 120
	}
	for li, lvl := range allLevels {
		sim := make([][]bool, n)
		for i := 0; i < n; i++ {
			sim[i] = make([]bool, n)
			for j := 0; j < n; j++ {
				sim[i][j] = stack.VerifSignatureSimilar(&u[i].Sig, &u[j].Sig, lvl)
			}
		}
		bad := ""
		core.Parallel(n, workers(), func(i int) {
			defer func() {
				if p := recover(); p != nil {
					bad = fmt.Sprintf("merge of two similar signatures panicked (%v) with %s", p, u[i].Desc)
				}
			}()
			if !sim[i][i] {
				bad = fmt.Sprintf("not reflexive on %s", u[i].Desc)
			}
			for j := 0; j < n; j++ {
				if sim[i][j] != sim[j][i] {
					bad = fmt.Sprintf("not symmetric on %s / %s", u[i].Desc, u[j].Desc)
				}
				if !sim[i][j] {
					continue
				}
				var m *stack.Signature
				if i < j {
					m = stack.VerifSignatureMerge(&u[i].Sig, &u[j].Sig)
				}
				for k := 0; k < n; k++ {
					if sim[j][k] && !sim[i][k] {
						bad = fmt.Sprintf("not transitive: %s ~ %s ~ %s", u[i].Desc, u[j].Desc, u[k].Desc)
					}
					if m != nil && stack.VerifSignatureSimilar(m, &u[k].Sig, lvl) != sim[i][k] {
						bad = fmt.Sprintf("merge(%s, %s) changes similarity class w.r.t. %s", u[i].Desc, u[j].Desc, u[k].Desc)
					}
				}
			}
		})
		r.Eval(n * n)
		r.Count("similarity_triples_checked", n*n*n)
		if bad != "" {
			r.Violation("similar-not-equivalence/"+levelNames[li], levelNames[li]+": "+bad, "laws", map[string]any{"level": li})
		}
	}
}

func replayAgg(r *core.Run, kind string, raw json.RawMessage) {
	if kind == "laws" {
		similarLaws(r, "large")
		return
	}
	var c aggCase
	if err := json.Unmarshal(raw, &c); err != nil {
		r.Broken(err.Error())
		return
	}
	c.Descs = nil
	s := c.snapshot()
	if s != nil {
		aggEvalSnap(r, s, &c)
	}
}
