package main

import (
	"bytes"
	"fmt"
	"os"
	"path/filepath"
	"sort"
	"strings"

	"github.com/maruel/panicparse/v2/stack"
	"github.com/maruel/panicparse/v2/verifhook"

	"verifharness/core"
	"verifharness/gen"
)

// c06History: "nothing observable depends on earlier calls in the same process". Two snapshots name the same
// files and lines but were resolved differently (as the same dump is with and without local roots, or before and
// after a checkout changed on disk). Rendering the second one after the first one must give the document that
// rendering it alone gives. "Alone" is obtained in the same process by using path names no earlier call has seen
// (a unique token per trial), which are mapped back before comparing.
func c06History(r *core.Run) {
	type res struct {
		loc             stack.Location
		rel, local, imp string
	}
	variants := []res{
		{stack.Stdlib, "fmt/print.go", "/local/goroot/src/fmt/print.go", "fmt"},
		{stack.GoPkg, "github.com/dep/x@v1.0.0/h.go", "/local/gp/pkg/mod/github.com/dep/x@v1.0.0/h.go", "github.com/dep/x@v1.0.0"},
		{stack.GOPATH, "github.com/gp/lib/g.go", "/local/gp/src/github.com/gp/lib/g.go", "github.com/gp/lib"},
		{stack.GoMod, "pkg/f.go", "/work/mod/pkg/f.go", "example.com/mod/pkg"},
		{stack.LocationUnknown, "", "", ""},
	}
	build := func(rr *core.Rand, token string, pick []int) *stack.Snapshot {
		var sigs []*stack.Signature
		for g := 0; g < 3; g++ {
			sig := &stack.Signature{State: []string{"chan receive", "select"}[g%2]}
			for k := 0; k < 3; k++ {
				v := variants[pick[(g*3+k)%len(pick)]]
				c := gen.MkCall(fmt.Sprintf("example.com/p%d.F%d", k, g), fmt.Sprintf("/remote/%s/src/d%d/file%d.go", token, k, g), 10+k, v.loc, stack.Args{Values: []stack.Arg{gen.Sc(uint64(g + 1))}})
				c.RelSrcPath, c.LocalSrcPath, c.ImportPath = v.rel, v.local, v.imp
				sig.Stack.Calls = append(sig.Stack.Calls, c)
			}
			sig.CreatedBy.Calls = []stack.Call{sig.Stack.Calls[0]}
			sigs = append(sigs, sig)
		}
		return gen.MkSnapshot(sigs)
	}
	render := func(s *stack.Snapshot) [2][]byte {
		var out [2][]byte
		var b bytes.Buffer
		_ = s.Aggregate(stack.AnyPointer).ToHTML(&b, "")
		out[0] = maskHTML(append([]byte{}, b.Bytes()...))
		b.Reset()
		_ = s.ToHTML(&b, "")
		out[1] = maskHTML(append([]byte{}, b.Bytes()...))
		return out
	}
	n := r.N(60, 1500)
	for t := 0; t < n; t++ {
		rr := core.NewRand(r.Seed, 66, uint64(t))
		first := make([]int, 9)
		second := make([]int, 9)
		for i := range first {
			first[i] = rr.Intn(len(variants))
			second[i] = rr.Intn(len(variants))
		}
		ta, tb := fmt.Sprintf("u%da", t), fmt.Sprintf("u%db", t)
		_ = render(build(rr, ta, first))
		after := render(build(rr, ta, second))
		alone := render(build(rr, tb, second))
		r.Eval(3)
		for k := 0; k < 2; k++ {
			want := []byte(strings.ReplaceAll(string(alone[k]), tb, ta))
			if !bytes.Equal(after[k], want) {
				d := firstDiff(after[k], want)
				r.Violation("html-depends-on-earlier-rendering", fmt.Sprintf("the document of a snapshot rendered after another snapshot that names the same files and lines (resolved differently) differs from the document it gets when rendered alone, first difference at byte %d: %q vs %q",
					d, b2s(tailFrom(after[k], d), 160), b2s(tailFrom(want, d), 160)), "hist", map[string]any{"trial": t, "first": first, "second": second})
				return
			}
		}
		r.DistinctN(1)
	}
	r.Count("history_trials", n)
}

// c06HistoryScan: the same for scanning with path guessing. Dump B is scanned after dump A; both name files under
// one remote root R, which on the remote machine was Go root and GOPATH at once, so that A makes the library learn
// "R is the Go root" while a file of B under R/src exists only in the local GOPATH. B scanned after A must resolve
// like B scanned alone ("alone" again through a root name no earlier call has seen).
func c06HistoryScan(r *core.Run) {
	base := filepath.ToSlash(filepath.Join(os.Getenv("VERIF_WORK"), "c06hist"))
	defer os.RemoveAll(base)
	lgoroot, lgopath := base+"/goroot", base+"/gp"
	files := map[string]string{ // path under the remote root -> local file
		"src/fmt/print.go":                      lgoroot + "/src/fmt/print.go",
		"src/sort/sort.go":                      lgoroot + "/src/sort/sort.go",
		"src/apkg/a.go":                         lgopath + "/src/apkg/a.go",
		"src/zpkg/z.go":                         lgopath + "/src/zpkg/z.go",
		"pkg/mod/github.com/x/y@v1.0.0/y.go":    lgopath + "/pkg/mod/github.com/x/y@v1.0.0/y.go",
		"src/nowhere/n.go":                      "",
		"pkg/mod/github.com/gone/g@v1.0.0/g.go": "",
	}
	var rels []string
	for rel, local := range files {
		rels = append(rels, rel)
		if local != "" {
			_ = os.MkdirAll(filepath.Dir(local), 0o755)
			_ = os.WriteFile(local, []byte("package p\n"), 0o644)
		}
	}
	sort.Strings(rels)
	opts := &stack.Opts{LocalGOROOT: lgoroot, LocalGOPATHs: []string{lgopath}, GuessPaths: true}
	dump := func(root string, pick []string) []byte {
		var b strings.Builder
		b.WriteString("goroutine 1 [running]:\n")
		for i, rel := range pick {
			fmt.Fprintf(&b, "example.com/p%d.F(0x%x)\n\t%s/%s:%d +0x1d\n", i, i+1, root, rel, 10+i)
		}
		b.WriteString("\n")
		return []byte(b.String())
	}
	key := func(s *stack.Snapshot, token string) string {
		if s == nil {
			return "<nil>"
		}
		var b strings.Builder
		fmt.Fprintf(&b, "goroot=%s gopaths=%v\n", s.RemoteGOROOT, s.RemoteGOPATHs)
		for _, g := range s.Goroutines {
			for _, c := range g.Stack.Calls {
				fmt.Fprintf(&b, "%s -> local=%s rel=%s import=%s class=%v\n", c.RemoteSrcPath, c.LocalSrcPath, c.RelSrcPath, c.ImportPath, c.Location)
			}
		}
		return strings.ReplaceAll(b.String(), token, "TOKEN")
	}
	n := r.N(200, 4000)
	for t := 0; t < n; t++ {
		rr := core.NewRand(r.Seed, 67, uint64(t))
		sub := func() []string {
			var out []string
			for _, rel := range rels {
				if rr.Chance(1, 2) {
					out = append(out, rel)
				}
			}
			if len(out) == 0 {
				out = []string{rels[rr.Intn(len(rels))]}
			}
			return out
		}
		a, bsel := sub(), sub()
		ta, tb := fmt.Sprintf("/remote/u%da/go", t), fmt.Sprintf("/remote/u%db/go", t)
		_, _, _, _ = scanAll(dump(ta, a), opts)
		after, _, _, _ := scanAll(dump(ta, bsel), opts)
		alone, _, _, _ := scanAll(dump(tb, bsel), opts)
		r.Eval(3)
		if ka, kb := key(after, ta), key(alone, tb); ka != kb {
			r.Violation("scan-depends-on-earlier-scan", fmt.Sprintf("a dump scanned after another dump that names files under the same remote root resolves differently from the same dump scanned alone:\nafter %v:\n%salone:\n%s", a, ka, kb), "hist", map[string]any{"trial": t, "first": a, "second": bsel})
			return
		}
		r.DistinctN(1)
	}
	r.Count("history_scan_trials", n)
}

// c06HistoryCLI: pp's stream loop called twice and more in one process on the same bytes (through the verif hook),
// with GOTRACEBACK unset so that single-goroutine dumps get pp's hint: every run prints the same text, and a dump
// inside a stream gets what it gets alone. Runs after every other phase (it changes the process environment).
func c06HistoryCLI(r *core.Run) {
	old, had := os.LookupEnv("GOTRACEBACK")
	os.Setenv("GOTRACEBACK", "")
	defer func() {
		if had {
			os.Setenv("GOTRACEBACK", old)
		} else {
			os.Unsetenv("GOTRACEBACK")
		}
	}()
	run := func(in []byte) string {
		var out bytes.Buffer
		_ = verifhook.Process(bytes.NewReader(in), &out, false, stack.AnyPointer, 2, true, false, nil, nil)
		return out.String()
	}
	single := []byte("panic: boom\n\ngoroutine 1 [running]:\nmain.main()\n\t/src/app/main.go:10 +0x1d\nexit status 2\n")
	two := append(append([]byte{}, single...), single...)
	var first [2]string
	n := r.N(6, 40)
	for k := 0; k < n; k++ {
		for v, in := range [][]byte{single, two} {
			got := run(in)
			r.Eval(1)
			if k == 0 {
				first[v] = got
				continue
			}
			if got != first[v] {
				d := firstDiff([]byte(got), []byte(first[v]))
				r.Violation("cli-text-depends-on-earlier-run", fmt.Sprintf("run %d of pp's stream loop on the same bytes in one process prints different text than run 0, first difference at byte %d: %q vs %q", k, d, b2s(tailFrom([]byte(got), d), 120), b2s(tailFrom([]byte(first[v]), d), 120)), "hist", map[string]any{"run": k, "input": string(in)})
				return
			}
		}
	}
	if !strings.Contains(first[0], "gotraceback") {
		r.Broken("the in-process pp run did not print its GOTRACEBACK hint: the phase observed nothing")
		return
	}
	if strings.Count(first[1], "gotraceback") != 2*strings.Count(first[0], "gotraceback") {
		r.Violation("cli-hint-per-dump", fmt.Sprintf("a stream of two single-goroutine dumps gets %d hints, one dump alone gets %d", strings.Count(first[1], "gotraceback"), strings.Count(first[0], "gotraceback")), "hist", map[string]any{"input": string(two)})
	}
	r.Count("history_cli_runs", 2*n)
}
