package main

import (
	"bytes"
	"fmt"
	"strings"

	"github.com/maruel/panicparse/v2/stack"

	"verifharness/core"
	"verifharness/gen"
)

// c06History: "nothing observable depends on earlier calls in the same process". Two snapshots name the same
// files and lines but were resolved differently (as the same dump is with and without local roots, or before and
// after a checkout changed on disk). Rendering the second one after the first one must give the document that
// rendering it alone gives. "Alone" is obtained in the same process by using path names no earlier call has seen
// (a unique token per trial), which are mapped back before comparing.
func c06History(r *core.Run) {
	type res struct {
		loc             stack.Location
		rel, local, imp string
	}
	variants := []res{
		{stack.Stdlib, "fmt/print.go", "/local/goroot/src/fmt/print.go", "fmt"},
		{stack.GoPkg, "github.com/dep/x@v1.0.0/h.go", "/local/gp/pkg/mod/github.com/dep/x@v1.0.0/h.go", "github.com/dep/x@v1.0.0"},
		{stack.GOPATH, "github.com/gp/lib/g.go", "/local/gp/src/github.com/gp/lib/g.go", "github.com/gp/lib"},
		{stack.GoMod, "pkg/f.go", "/work/mod/pkg/f.go", "example.com/mod/pkg"},
		{stack.LocationUnknown, "", "", ""},
	}
	build := func(rr *core.Rand, token string, pick []int) *stack.Snapshot {
		var sigs []*stack.Signature
		for g := 0; g < 3; g++ {
			sig := &stack.Signature{State: []string{"chan receive", "select"}[g%2]}
			for k := 0; k < 3; k++ {
				v := variants[pick[(g*3+k)%len(pick)]]
				c := gen.MkCall(fmt.Sprintf("example.com/p%d.F%d", k, g), fmt.Sprintf("/remote/%s/src/d%d/file%d.go", token, k, g), 10+k, v.loc, stack.Args{Values: []stack.Arg{gen.Sc(uint64(g + 1))}})
				c.RelSrcPath, c.LocalSrcPath, c.ImportPath = v.rel, v.local, v.imp
				sig.Stack.Calls = append(sig.Stack.Calls, c)
			}
			sig.CreatedBy.Calls = []stack.Call{sig.Stack.Calls[0]}
			sigs = append(sigs, sig)
		}
		return gen.MkSnapshot(sigs)
	}
	render := func(s *stack.Snapshot) [2][]byte {
		var out [2][]byte
		var b bytes.Buffer
		_ = s.Aggregate(stack.AnyPointer).ToHTML(&b, "")
		out[0] = maskHTML(append([]byte{}, b.Bytes()...))
		b.Reset()
		_ = s.ToHTML(&b, "")
		out[1] = maskHTML(append([]byte{}, b.Bytes()...))
		return out
	}
	n := r.N(60, 1500)
	for t := 0; t < n; t++ {
		rr := core.NewRand(r.Seed, 66, uint64(t))
		first := make([]int, 9)
		second := make([]int, 9)
		for i := range first {
			first[i] = rr.Intn(len(variants))
			second[i] = rr.Intn(len(variants))
		}
		ta, tb := fmt.Sprintf("u%da", t), fmt.Sprintf("u%db", t)
		_ = render(build(rr, ta, first))
		after := render(build(rr, ta, second))
		alone := render(build(rr, tb, second))
		r.Eval(3)
		for k := 0; k < 2; k++ {
			want := []byte(strings.ReplaceAll(string(alone[k]), tb, ta))
			if !bytes.Equal(after[k], want) {
				d := firstDiff(after[k], want)
				r.Violation("html-depends-on-earlier-rendering", fmt.Sprintf("the document of a snapshot rendered after another snapshot that names the same files and lines (resolved differently) differs from the document it gets when rendered alone, first difference at byte %d: %q vs %q",
					d, b2s(tailFrom(after[k], d), 160), b2s(tailFrom(want, d), 160)), "hist", map[string]any{"trial": t, "first": first, "second": second})
				return
			}
		}
		r.DistinctN(1)
	}
	r.Count("history_trials", n)
}
