package main

import (
	"bytes"
	"encoding/json"
	"fmt"
	"os"
	"path/filepath"
	"regexp"
	"runtime"
	"strings"
	"sync"

	"github.com/maruel/panicparse/v2/stack"
	"github.com/maruel/panicparse/v2/verifhook"

	"verifharness/core"
	"verifharness/gen"
	"verifharness/mon"
)

func init() {
	checks["C14"] = check{level: "exploration", run: runC14, replay: replayC14}
}

type c14Case struct {
	Dump *gen.Dump `json:"dump"`
	Ops  []int     `json:"ops"` // 0..3 Aggregate(level), 4 Aggregated.ToHTML, 5 Snapshot.ToHTML, 6..9 pp's console rendering
}

func mergeDump(rr *core.Rand) *gen.Dump {
	cfg := &gen.Cfg{MaxG: 10, MaxFrames: 3, MaxDepth: 3, MaxArgs: 4, FewShapes: true,
		PtrPool: []uint64{0xc000012340, 0xc000012348, 0xc0000a0000, 0xc0000a0008, 5, 6}}
	d := gen.GenDump(rr, cfg, rr.Intn(864))
	for gi := range d.Gs {
		d.Gs[gi].State = []string{"select", "chan receive"}[rr.Intn(2)]
		if rr.Chance(2, 3) {
			d.Gs[gi].Creator = nil
		}
		if len(d.Gs[gi].Frames) > 1 {
			d.Gs[gi].Frames = d.Gs[gi].Frames[:1]
		}
	}
	return d
}

// textFilter matches the header of some goroutines/buckets of a mergeDump (states are select / chan receive).
var textFilter = regexp.MustCompile(`select`)

func applyOp(s *stack.Snapshot, op int) {
	switch {
	case op < 4:
		_ = s.Aggregate(allLevels[op])
	case op == 4:
		_ = s.Aggregate(stack.AnyValue).ToHTML(&bytes.Buffer{}, "")
	case op == 5:
		_ = s.ToHTML(&bytes.Buffer{}, "")
	case op == 6:
		// pp's console rendering of buckets and of single goroutines (what it prints for a race report), through
		// the verif hook, with -f / -m expressions that hide some entries and keep later ones
		_ = verifhook.WriteBuckets(&bytes.Buffer{}, false, s.Aggregate(stack.AnyPointer), 2, nil, nil)
	case op == 7:
		_ = verifhook.WriteBuckets(&bytes.Buffer{}, true, s.Aggregate(stack.AnyValue), 0, textFilter, nil)
	case op == 8:
		_ = verifhook.WriteGoroutines(&bytes.Buffer{}, false, s, 1, textFilter, nil)
	default:
		_ = verifhook.WriteGoroutines(&bytes.Buffer{}, true, s, 2, nil, textFilter)
	}
}

func c14Eval(r *core.Run, c *c14Case) {
	in := c.Dump.Render()
	s1, _, _, _ := scanAll(in, namingOpts())
	s2, _, _, _ := scanAll(in, namingOpts())
	r.Eval(1)
	if s1 == nil || s2 == nil {
		return
	}
	report := func(key, what string) { r.Violation(key, what, "immut", c) }
	for k, op := range c.Ops {
		applyOp(s1, op)
		if d := mon.DiffSnapshot(s1, s2, mon.EqOpt{}); d != "" {
			report("snapshot-mutated", fmt.Sprintf("after operation %d (%d) of %v the snapshot differs from its pristine twin: %s", k, op, c.Ops, d))
			return
		}
	}
	for li, lvl := range allLevels {
		if d := mon.DiffAggregated(s1.Aggregate(lvl), s2.Aggregate(lvl), mon.EqOpt{}); d != "" {
			report("later-aggregation-differs", fmt.Sprintf("%s aggregation after %v differs from the one on a fresh parse: %s", levelNames[li], c.Ops, d))
			return
		}
	}
}

type seqExpect struct {
	in    []byte
	snap  *stack.Snapshot
	aggs  [4]*stack.Aggregated
	html  []byte
	html2 []byte
	text  [2][]byte // console rendering of the goroutines (filtered) and of the AnyPointer aggregation
}

var raceCanaryCounter int

//go:noinline
func raceCanary() {
	var wg sync.WaitGroup
	for i := 0; i < 2; i++ {
		wg.Add(1)
		go func() {
			defer wg.Done()
			for k := 0; k < 1000; k++ {
				raceCanaryCounter++
			}
		}()
	}
	wg.Wait()
}

// raceReports reads the race detector's log files and splits canary reports from the others.
func raceReports() (canary, others int, samples []string) {
	files, _ := filepath.Glob(os.Getenv("VERIF_WORK") + "/race.*")
	seen := map[string]bool{}
	for _, f := range files {
		b, _ := os.ReadFile(f)
		for _, blk := range strings.Split(string(b), "==================") {
			if !strings.Contains(blk, "WARNING: DATA RACE") {
				continue
			}
			if strings.Contains(blk, "raceCanary") {
				canary++
				continue
			}
			// dedupe by the function names on the two operation stacks
			var sig []string
			for _, l := range strings.Split(blk, "\n") {
				if strings.HasPrefix(l, "  ") && strings.HasSuffix(l, ")") && !strings.HasPrefix(l, "   ") {
					sig = append(sig, strings.TrimSpace(l))
				}
			}
			k := strings.Join(sig, "|")
			if seen[k] {
				continue
			}
			seen[k] = true
			others++
			if len(samples) < 3 {
				samples = append(samples, core.Trunc(blk, 2500))
			}
		}
	}
	return
}

func concurrentPhase(r *core.Run, procs, nworkers, opsPer int, exp []*seqExpect, shared *stack.Opts) {
	runtime.GOMAXPROCS(procs)
	var wg sync.WaitGroup
	var mu sync.Mutex
	bad := ""
	for w := 0; w < nworkers; w++ {
		wg.Add(1)
		go func(w int) {
			defer wg.Done()
			rr := core.NewRand(r.Seed, 14, uint64(procs*1000+w))
			for k := 0; k < opsPer; k++ {
				e := exp[rr.Intn(len(exp))]
				opts := shared
				if rr.Chance(1, 3) {
					opts = namingOpts()
				}
				msg := ""
				switch op := rr.Intn(8); {
				case op == 0: // scan (private result, shared options)
					s, _, _, _ := scanAll(e.in, opts)
					if d := mon.DiffSnapshot(e.snap, s, mon.EqOpt{}); d != "" {
						msg = "concurrent scan differs from the sequential one: " + d
					}
				case op <= 4: // aggregate the SHARED snapshot
					li := rr.Intn(4)
					a := e.snap.Aggregate(allLevels[li])
					if d := mon.DiffAggregated(e.aggs[li], a, mon.EqOpt{}); d != "" {
						msg = fmt.Sprintf("concurrent %s aggregation of a shared snapshot differs from the sequential one: %s", levelNames[li], d)
					}
				case op == 5 && k%8 == 0:
					var b bytes.Buffer
					_ = e.aggs[2].ToHTML(&b, "")
					if !bytes.Equal(maskHTML(b.Bytes()), e.html) {
						msg = "concurrent Aggregated.ToHTML differs from the sequential one"
					}
				case op == 6 && k%8 == 0:
					var b bytes.Buffer
					_ = e.snap.ToHTML(&b, "")
					if !bytes.Equal(maskHTML(b.Bytes()), e.html2) {
						msg = "concurrent Snapshot.ToHTML differs from the sequential one"
					}
				case op == 7 && k%4 == 0:
					var b bytes.Buffer
					if rr.Bool() {
						_ = verifhook.WriteGoroutines(&b, false, e.snap, 2, textFilter, nil)
						if !bytes.Equal(b.Bytes(), e.text[0]) {
							msg = "concurrent console rendering of the goroutines of a shared snapshot differs from the sequential one"
						}
					} else {
						_ = verifhook.WriteBuckets(&b, false, e.aggs[2], 2, nil, nil)
						if !bytes.Equal(b.Bytes(), e.text[1]) {
							msg = "concurrent console rendering of a shared aggregation differs from the sequential one"
						}
					}
				default:
					_ = e.snap.IsRace()
				}
				if msg != "" {
					mu.Lock()
					bad = msg
					mu.Unlock()
				}
			}
			r.Eval(opsPer)
		}(w)
	}
	wg.Wait()
	if bad != "" {
		r.Violation("concurrent-result", bad, "conc", map[string]any{"procs": procs})
	}
	r.Mark("gomaxprocs", fmt.Sprint(procs))
}

func runC14(r *core.Run) {
	r.Rule("(0) cold start: the first calls into the library in this process are 16 concurrent aggregations and renderings of private snapshots with frames of every location class, compared afterwards with the same renderings done alone; (a) immutability: every generated dump (few frame shapes + small pointer pools so that merges happen) is parsed twice; a random sequence of Aggregate(level) / ToHTML / pp console rendering (through the verif hook, with -f/-m expressions) calls runs on copy 1 only; after every call copy 1 must deep-equal its pristine twin and aggregating both must agree; G-SNAP multisets likewise. " +
		"(b) concurrency under the Go race detector (this binary is built with -race): N goroutines scan, aggregate (4 levels) and render SHARED snapshots with a SHARED *Opts at GOMAXPROCS 2/4/16, each result compared with the precomputed sequential result; (c) rounds of W scans started together with path guessing and source analysis on, over freshly written source files, each compared with the same scan run alone afterwards; race reports are read from the detector's log, a deliberately racy canary must be among them. " +
		"distinct by hash(input, ops); non-trivial = the aggregation at AnyPointer merges >= 2 goroutines")
	r.Assume("GORACE=halt_on_error=0 log_path=<work>/race is set by ./check; a missing canary report makes the run BROKEN")
	c14ColdStart(r)
	n := r.N(1500, 40000)
	core.Parallel(n, workers(), func(i int) {
		rr := core.NewRand(r.Seed, 141, uint64(i))
		c := &c14Case{Dump: mergeDump(rr)}
		for k := 1 + rr.Intn(6); k > 0; k-- {
			op := rr.Intn(10)
			if (op == 4 || op == 5) && i%6 != 0 {
				op = rr.Intn(4) // HTML rendering is slow: one case in six
			}
			c.Ops = append(c.Ops, op)
		}
		c14Eval(r, c)
		s, _, _, _ := scanAll(c.Dump.Render(), namingOpts())
		if s != nil && len(s.Aggregate(stack.AnyPointer).Buckets) < len(s.Goroutines) {
			r.Distinct(core.Hash64(c.Dump.Render()) ^ core.HashStr(fmt.Sprint(c.Ops)))
		}
		if i < 2 {
			r.Sample(map[string]any{"dump": b2s(c.Dump.Render(), 700), "ops": c.Ops})
		}
	})
	// G-SNAP snapshots: aggregate must not write through the shared slices
	u := universe("small")
	core.Parallel(len(u), workers(), func(i int) {
		for j := i; j < len(u); j++ {
			sigs := []*stack.Signature{&u[i].Sig, &u[j].Sig, &u[(i+j)%len(u)].Sig}
			s1, s2 := gen.MkSnapshot(sigs), gen.MkSnapshot(sigs)
			for _, lvl := range []stack.Similarity{stack.AnyValue, stack.AnyPointer, stack.ExactLines, stack.ExactFlags, stack.AnyValue} {
				_ = s1.Aggregate(lvl)
			}
			r.Eval(1)
			if d := mon.DiffSnapshot(s1, s2, mon.EqOpt{}); d != "" {
				r.Violation("snapshot-mutated", "aggregating a constructed snapshot modified it: "+d+" | "+u[i].Desc+" / "+u[j].Desc, "gsnap", map[string]any{"i": i, "j": j})
			}
		}
		r.DistinctN(len(u) - i)
	})
	// (b)
	var exp []*seqExpect
	for i := 0; i < r.N(40, 200); i++ {
		rr := core.NewRand(r.Seed, 142, uint64(i))
		e := &seqExpect{in: mergeDump(rr).Render()}
		e.snap, _, _, _ = scanAll(e.in, namingOpts())
		if e.snap == nil {
			continue
		}
		for li, lvl := range allLevels {
			e.aggs[li] = e.snap.Aggregate(lvl)
		}
		var b bytes.Buffer
		_ = e.aggs[2].ToHTML(&b, "")
		e.html = maskHTML(b.Bytes())
		b = bytes.Buffer{}
		_ = e.snap.ToHTML(&b, "")
		e.html2 = maskHTML(b.Bytes())
		b = bytes.Buffer{}
		_ = verifhook.WriteGoroutines(&b, false, e.snap, 2, textFilter, nil)
		e.text[0] = append([]byte{}, b.Bytes()...)
		b = bytes.Buffer{}
		_ = verifhook.WriteBuckets(&b, false, e.aggs[2], 2, nil, nil)
		e.text[1] = append([]byte{}, b.Bytes()...)
		exp = append(exp, e)
	}
	shared := namingOpts()
	old := runtime.GOMAXPROCS(0)
	for _, p := range []int{2, 4, 16} {
		concurrentPhase(r, p, r.N(16, 64), r.N(1500, 20000), exp, shared)
	}
	runtime.GOMAXPROCS(old)
	c14SourcePhase(r)
	c14Web(r)
	raceCanary()
	canary, others, samples := raceReports()
	r.Set("race_reports_canary", canary)
	r.Set("race_reports_other", others)
	if canary == 0 {
		r.Broken("the racy canary was not reported: the race detector is not live (binary not built with -race or GORACE log_path not set)")
	}
	for _, s := range samples {
		if strings.Contains(s, "maruel/panicparse") {
			r.Violation("data-race", "the race detector reports a data race in panicparse:\n"+s, "race", map[string]any{"report": s})
		} else {
			r.Broken("race in the harness itself:\n" + s)
		}
	}
}

func replayC14(r *core.Run, kind string, raw json.RawMessage) {
	if kind != "immut" {
		fmt.Println("only immutability witnesses replay deterministically")
		return
	}
	var c c14Case
	if err := json.Unmarshal(raw, &c); err != nil {
		r.Broken(err.Error())
		return
	}
	c14Eval(r, &c)
}
