package main

import (
	"bytes"
	"context"
	"encoding/json"
	"fmt"
	"io"
	"net"
	"net/http"
	"net/http/httptest"
	"regexp"
	"runtime"
	"strconv"
	"strings"
	"sync"
	"sync/atomic"
	"time"

	"github.com/maruel/panicparse/v2/stack"
	"github.com/maruel/panicparse/v2/stack/webstack"

	"verifharness"
	"verifharness/core"
	xhtml "verifharness/third_party/xhtml"
)

func init() {
	checks["C20"] = check{level: "exploration", run: runC20, replay: replayC20}
}

type capture struct {
	rawLen  int
	headers int
	err     error
	parsed  int
}

var (
	capMu    sync.Mutex
	captures = map[int]*capture{} // by goroutine id of the handler
)

var routinesRe = regexp.MustCompile(`Signature #\d+: (\d+) routines?:`)

// bucketSizes extracts the member counts from the <h1> elements of a page.
func bucketSizes(doc []byte) (sum, n int) {
	sum, n, _ = bucketSizesWith(doc, "")
	return
}

// blockedHandlerStack returns the stack of a goroutine that is inside webstack.SnapshotHandler and parked on a
// channel, a select or a lock (not running, not in a system call or in network I/O), "" if there is none.
func blockedHandlerStack() string {
	buf := make([]byte, 64<<20)
	buf = buf[:runtime.Stack(buf, true)]
	for _, g := range bytes.Split(buf, []byte("\n\n")) {
		if !bytes.Contains(g, []byte("webstack.SnapshotHandler")) {
			continue
		}
		hdr := g
		if i := bytes.IndexByte(g, '\n'); i >= 0 {
			hdr = g[:i]
		}
		for _, st := range []string{"[select", "[chan receive", "[chan send", "[semacquire", "[sync.Mutex.Lock", "[sync.RWMutex", "[sync.Cond.Wait", "[sync.WaitGroup.Wait"} {
			if bytes.Contains(hdr, []byte(st)) {
				return core.Trunc(string(g), 1500)
			}
		}
	}
	return ""
}

// callHandler calls the handler in-process with a watchdog. verdict: "" answered; "blocked" a handler goroutine is
// parked inside the library (with its stack); "slow" the watchdog fired while the handler was still running.
func callHandler(path string, wait time.Duration) (code int, body string, verdict, stackTxt string) {
	rec := httptest.NewRecorder()
	done := make(chan struct{})
	go func() {
		defer close(done)
		defer func() {
			if p := recover(); p != nil {
				rec.Code = 599
				rec.Body.WriteString(fmt.Sprint(p))
			}
		}()
		webstack.SnapshotHandler(rec, httptest.NewRequest("GET", path, nil))
	}()
	select {
	case <-done:
		return rec.Code, rec.Body.String(), "", ""
	case <-time.After(wait):
	}
	if st := blockedHandlerStack(); st != "" {
		return 0, "", "blocked", st
	}
	select {
	case <-done:
		return rec.Code, rec.Body.String(), "", ""
	case <-time.After(wait):
	}
	return 0, "", "slow", ""
}

// verifMarkerPark is where marker goroutines wait: a request issued after a marker entered it must find the marker
// accounted for on the page it gets.
//
//go:noinline
func verifMarkerPark(started, stop chan struct{}) {
	markerCount.Add(1)
	close(started)
	<-stop
}

var markerCount atomic.Int64

// bucketSizesWith also returns how many goroutines the buckets whose text mentions needle account for.
func bucketSizesWith(doc []byte, needle string) (sum, n, with int) {
	z := xhtml.NewTokenizer(bytes.NewReader(doc))
	inH1 := false
	cur, curHas := 0, false
	for {
		tt := z.Next()
		if tt == xhtml.ErrorToken {
			return
		}
		if needle != "" && tt == xhtml.TextToken && !inH1 && !curHas && cur != 0 && bytes.Contains(z.Text(), []byte(needle)) {
			curHas = true
			with += cur
			continue
		}
		switch tt {
		case xhtml.StartTagToken:
			if t := z.Token(); t.Data == "h1" {
				inH1 = true
			}
		case xhtml.EndTagToken:
			if t := z.Token(); t.Data == "h1" {
				inH1 = false
			}
		case xhtml.TextToken:
			if inH1 {
				if m := routinesRe.FindSubmatch(z.Text()); m != nil {
					k, _ := strconv.Atoi(string(m[1]))
					sum += k
					n++
					cur, curHas = k, false
				}
			}
		}
	}
}

type reqSpec struct {
	Method string `json:"method"`
	Query  string `json:"query"`
	Valid  bool   `json:"valid"`
}

func genReq(rr *core.Rand) reqSpec {
	var q []string
	valid := true
	switch rr.Intn(7) {
	case 0:
	case 1:
		q = append(q, "similarity=exactflags")
	case 2:
		q = append(q, "similarity=exactlines")
	case 3:
		q = append(q, "similarity=anypointer")
	case 4:
		q = append(q, "similarity=anyvalue")
	case 5:
		q = append(q, "similarity=")
	case 6:
		q = append(q, "similarity="+rr.Pick([]string{"bogus", "AnyValue", "exact", "1", "any value"}))
		valid = false
	}
	switch rr.Intn(6) {
	case 0, 1:
	case 2:
		q = append(q, "augment=0")
	case 3:
		q = append(q, "augment=1")
	case 4:
		q = append(q, "augment=0")
	case 5:
		q = append(q, "augment="+rr.Pick([]string{"2", "-1", "x", "1.5", "true"}))
		valid = false
	}
	switch rr.Intn(6) {
	case 0, 1:
	case 2:
		// values below the documented 1 MiB minimum are valid and mean the minimum
		q = append(q, "maxmem="+rr.Pick([]string{"1048576", "1", "1000", "65536", "1048575", "0", "-5"}))
	case 3:
		q = append(q, "maxmem="+strconv.Itoa(2<<20+rr.Intn(64<<20)))
	case 4:
		q = append(q, "maxmem=268435456")
	case 5:
		q = append(q, "maxmem="+rr.Pick([]string{"abc", "1e6", "", "9999999999999999999999", "0x100000"}))
		if !strings.HasSuffix(q[len(q)-1], "=") {
			valid = false
		}
	}
	m := "GET"
	if rr.Chance(1, 12) {
		m = rr.Pick([]string{"POST", "PUT", "DELETE", "HEAD", "PATCH"})
		valid = false
	}
	return reqSpec{Method: m, Query: strings.Join(q, "&"), Valid: valid}
}

func runC20(r *core.Run) {
	r.Rule("library: rounds of the G-LIVE churn workload (goroutines parked on channel send/receive, select, mutex, RWMutex, WaitGroup, Cond, sleep, network accept, pipe read, locked to a thread, 20..180-deep recursion, spinning, short-lived goroutines being created and exiting); the dump runtime.Stack(all) prints is parsed and compared with an independent header count and with the registry built from runtime.Callers. " +
		"handler: a httptest server serving webstack.SnapshotHandler to 8/32 concurrent clients under the same churn, requests drawn from similarity {absent, 4 values, empty, invalid} x augment {absent, 0, 1, invalid} x maxmem {absent, 1 MiB, random, huge, invalid} x method; valid GETs must be answered 200 with a page that passes the HTML tokenizer rules and whose bucket sizes add up to the header count of the dump THAT request captured (webstack hook, correlated by goroutine id); anything invalid 4xx; built with -race, canary as control. distinct by hash of the dump / (query, round); non-trivial = every dump (>= 20 goroutines)")
	r.Assume("states of known goroutines are compared only once every known goroutine shows a parked state (settle loop); a round that never settles skips the state clause and is counted")
	voc, err := loadVocabulary()
	if err != nil {
		r.Broken("cannot derive the template vocabulary: " + err.Error())
		return
	}
	old := runtime.GOMAXPROCS(0)
	rounds := r.N(8, 60)
	for i, p := range []int{1, 4, 16} {
		runtime.GOMAXPROCS(p)
		n := rounds
		if p == 1 {
			n = (rounds + 2) / 3 // a spinning goroutine on a single P starves the settle loop: fewer rounds
		}
		liveRoundsFrom(r, i*rounds, n)
		r.Mark("gomaxprocs", fmt.Sprint(p))
	}
	runtime.GOMAXPROCS(old)
	if !r.Quick() {
		liveOtherToolchain(r, 5000, 100)
	}
	// handler
	hook := func(raw []byte, s *stack.Snapshot, err error) {
		c := &capture{rawLen: len(raw), headers: len(rawHeaders(raw)), err: err}
		if s != nil {
			c.parsed = len(s.Goroutines)
		}
		capMu.Lock()
		captures[curGID()] = c
		capMu.Unlock()
	}
	webstack.VerifSnapshotHook.Store(&hook)
	defer webstack.VerifSnapshotHook.Store(nil)
	var panics []string
	var pmu sync.Mutex
	// The handler writes straight to the network connection (small socket buffers, some slow clients: its writes
	// really block and overlap with other requests). What the request captured is put into response headers by
	// the hook itself, which runs in the handler's goroutine before anything is written.
	var writers sync.Map // goroutine id -> http.ResponseWriter
	hook2 := func(raw []byte, s *stack.Snapshot, err error) {
		hook(raw, s, err)
		gid := curGID()
		capMu.Lock()
		c := captures[gid]
		delete(captures, gid)
		capMu.Unlock()
		if wv, ok := writers.Load(gid); ok && c != nil {
			w := wv.(http.ResponseWriter)
			w.Header().Set("X-Verif-Headers", strconv.Itoa(c.headers))
			w.Header().Set("X-Verif-RawLen", strconv.Itoa(c.rawLen))
			w.Header().Set("X-Verif-Parsed", strconv.Itoa(c.parsed))
			if c.err != nil {
				w.Header().Set("X-Verif-Err", c.err.Error())
			}
		}
	}
	webstack.VerifSnapshotHook.Store(&hook2)
	srv := httptest.NewUnstartedServer(http.HandlerFunc(func(w http.ResponseWriter, req *http.Request) {
		gid := curGID()
		writers.Store(gid, w)
		defer func() {
			writers.Delete(gid)
			if p := recover(); p != nil {
				pmu.Lock()
				panics = append(panics, fmt.Sprint(p))
				pmu.Unlock()
				w.WriteHeader(599)
			}
		}()
		webstack.SnapshotHandler(w, req)
	}))
	srv.Listener = &smallBufListener{srv.Listener}
	srv.Start()
	defer srv.Close()
	world := startLive(core.NewRand(r.Seed, 2020))
	// goroutines whose innermost frame is in a file at the root of a module (relative path without a directory)
	rootStop := make(chan struct{})
	for i := 0; i < 3; i++ {
		st := make(chan struct{})
		go verifharness.ParkAtModuleRoot(st, rootStop)
		<-st
	}
	defer close(rootStop)
	stopChurn := make(chan struct{})
	var cw sync.WaitGroup
	for i := 0; i < 4; i++ {
		cw.Add(1)
		go func() {
			defer cw.Done()
			for {
				select {
				case <-stopChurn:
					return
				default:
				}
				var wg sync.WaitGroup
				for j := 0; j < 16; j++ {
					wg.Add(1)
					go func(j int) {
						defer wg.Done()
						if j%4 == 0 {
							ch := make(chan int)
							go func() { ch <- 1 }()
							<-ch
						}
						runtime.Gosched()
					}(j)
				}
				wg.Wait()
			}
		}()
	}
	var stuck atomic.Bool
	clients := r.N(8, 32)
	perClient := r.N(30, 40)
	stopMarkers := make(chan struct{})
	markerBase := markerCount.Load()
	var wg sync.WaitGroup
	for cidx := 0; cidx < clients; cidx++ {
		wg.Add(1)
		go func(cidx int) {
			defer wg.Done()
			rr := core.NewRand(r.Seed, 20, uint64(cidx))
			// the request watchdog covers the whole exchange, body included; in the thorough tier 32 clients share
			// the race-instrumented process with the churn and pages reach megabytes - minutes are normal there
			reqTimeout := 3 * time.Minute
			if !r.Quick() {
				reqTimeout = 45 * time.Minute
			}
			client := &http.Client{Timeout: reqTimeout, Transport: &http.Transport{DialContext: func(ctx context.Context, network, addr string) (net.Conn, error) {
				c, err := (&net.Dialer{}).DialContext(ctx, network, addr)
				if tc, ok := c.(*net.TCPConn); ok {
					_ = tc.SetReadBuffer(8 << 10)
				}
				return c, err
			}}}
			slow := cidx%4 == 0
			for k := 0; k < perClient; k++ {
				spec := genReq(rr)
				// a goroutine that exists before the request is issued: the page answering it has to account for it
				started := make(chan struct{})
				go verifMarkerPark(started, stopMarkers)
				<-started
				markersBefore := int(markerCount.Load() - markerBase)
				if stuck.Load() {
					return // a request is known to be stuck: the verdict is in, no point in queueing behind it
				}
				req, _ := http.NewRequest(spec.Method, srv.URL+"/debug/panicparse?"+spec.Query, nil)
				resp, err := client.Do(req)
				r.Eval(1)
				if err != nil {
					if ne, ok := err.(interface{ Timeout() bool }); ok && ne.Timeout() {
						// the watchdog fired. That alone decides nothing: look at what the handler is doing. A handler
						// goroutine parked on a channel, select or lock inside the library will not finish on its own.
						if st := blockedHandlerStack(); st != "" {
							if !stuck.Swap(true) {
								r.Violation("handler-blocked", fmt.Sprintf("%s ?%s got no answer and a handler goroutine is parked inside the library:\n%s", spec.Method, spec.Query, st), "req", spec)
							}
						} else if !stuck.Swap(true) {
							r.Inconclusive(fmt.Sprintf("%s ?%s: the request watchdog fired while the handler was still running", spec.Method, spec.Query))
						}
						return
					}
					r.Violation("handler-no-response", fmt.Sprintf("%s ?%s: %v", spec.Method, spec.Query, err), "req", spec)
					continue
				}
				var body []byte
				var rerr error
				if slow {
					// a slow reader: the server's writes fill the small socket buffers and block
					chunk := make([]byte, 2048)
					for {
						n, err := resp.Body.Read(chunk)
						body = append(body, chunk[:n]...)
						if err != nil {
							if err != io.EOF {
								rerr = err
							}
							break
						}
						if len(body)%(16<<10) < 2048 {
							time.Sleep(300 * time.Microsecond)
						}
					}
				} else {
					body, rerr = io.ReadAll(resp.Body)
				}
				resp.Body.Close()
				if ne, ok := rerr.(interface{ Timeout() bool }); ok && ne.Timeout() {
					// the watchdog fired while the body was being read: what arrived is cut by the harness, not by the
					// handler - same classification as a request that got no answer at all
					if st := blockedHandlerStack(); st != "" {
						if !stuck.Swap(true) {
							r.Violation("handler-blocked", fmt.Sprintf("%s ?%s: the answer stopped after %d bytes and a handler goroutine is parked inside the library:\n%s", spec.Method, spec.Query, len(body), st), "req", spec)
						}
					} else if !stuck.Swap(true) {
						r.Inconclusive(fmt.Sprintf("%s ?%s: the request watchdog fired while the answer was still being written (%d bytes so far)", spec.Method, spec.Query, len(body)))
					}
					return
				}
				r.Mark("statuses", fmt.Sprintf("%s valid=%v -> %d", spec.Method, spec.Valid, resp.StatusCode))
				r.Distinct(core.HashStr(spec.Method + spec.Query + strconv.Itoa(cidx*100000+k)))
				if resp.StatusCode == 599 {
					r.Violation("handler-panic", fmt.Sprintf("%s ?%s: handler panicked", spec.Method, spec.Query), "req", spec)
					continue
				}
				if !spec.Valid {
					if resp.StatusCode < 400 || resp.StatusCode > 499 {
						r.Violation("invalid-not-4xx", fmt.Sprintf("%s ?%s answered %d", spec.Method, spec.Query, resp.StatusCode), "req", spec)
					}
					continue
				}
				if resp.StatusCode != 200 {
					r.Violation("valid-not-200", fmt.Sprintf("GET ?%s answered %d: %s (capture error: %s)", spec.Query, resp.StatusCode, b2s(body, 200), resp.Header.Get("X-Verif-Err")), "req", spec)
					continue
				}
				headers, _ := strconv.Atoi(resp.Header.Get("X-Verif-Headers"))
				parsed, _ := strconv.Atoi(resp.Header.Get("X-Verif-Parsed"))
				if !bytes.HasPrefix(body, []byte("<!DOCTYPE html>")) || bytes.Count(body, []byte(`<div class="bottom-padding"></div>`)) != 1 || !bytes.HasSuffix(bytes.TrimSpace(body), []byte(`<div class="bottom-padding"></div>`)) {
					r.Violation("page-not-one-document", fmt.Sprintf("GET ?%s: the body (%d bytes) is not one complete page (doctype first, the closing bottom-padding div exactly once at the end); error reading the body: %v; it ends with %q", spec.Query, len(body), rerr, b2s(body[maxI(0, len(body)-160):], 160)), "req", spec)
					continue
				}
				if rawLen, _ := strconv.Atoi(resp.Header.Get("X-Verif-RawLen")); rawLen >= 1<<20 {
					// at or above the smallest valid maxmem the capture may legitimately be cut short
					r.Count("pages_of_possibly_cut_captures", 1)
				} else if _, _, with := bucketSizesWith(body, "verifMarkerPark"); with < markersBefore {
					r.Violation("page-misses-goroutines-alive-before-the-request", fmt.Sprintf("GET ?%s: %d marker goroutines were waiting in verifMarkerPark before the request was issued, the page accounts for %d of them", spec.Query, markersBefore, with), "req", spec)
					continue
				}
				r.Count("pages_checked_against_markers", 1)
				if headers == 0 {
					// the capture hook was not reached for this request: nothing more to compare the page with
					r.Count("pages_without_capture_report", 1)
					continue
				}
				r.Count("pages_with_capture_report", 1)
				if parsed != headers {
					r.Violation("capture-count", fmt.Sprintf("the dump this request captured has %d goroutine headers, %d parsed", headers, parsed), "req", spec)
					continue
				}
				if !bytes.HasPrefix(body, []byte("<!DOCTYPE html>")) || bytes.Count(body, []byte(`<div class="bottom-padding"></div>`)) != 1 || !bytes.HasSuffix(bytes.TrimSpace(body), []byte(`<div class="bottom-padding"></div>`)) {
					r.Violation("page-not-one-document", fmt.Sprintf("GET ?%s: the body (%d bytes) is not one complete page (doctype first, the closing bottom-padding div exactly once at the end); error reading the body: %v; it ends with %q", spec.Query, len(body), rerr, b2s(body[maxI(0, len(body)-160):], 160)), "req", spec)
					continue
				}
				sum, nb := bucketSizes(body)
				if sum != headers {
					r.Violation("page-incomplete", fmt.Sprintf("GET ?%s: bucket sizes on the page add up to %d (%d buckets), the dump this request captured has %d goroutines", spec.Query, sum, nb, headers), "req", spec)
					continue
				}
				m := &marked{nBlocks: nb}
				if k, w := checkHTMLSafety(body, voc, m); k != "" {
					r.Violation("page-"+k, fmt.Sprintf("GET ?%s: %s", spec.Query, w), "req", spec)
				}
				r.Count("pages_checked", 1)
				r.Count("goroutines_accounted", headers)
			}
		}(cidx)
	}
	wg.Wait()
	close(stopChurn)
	close(stopMarkers)
	cw.Wait()
	world.stop()
	if r.Counter("pages_with_capture_report") == 0 {
		r.Broken("webstack hook never reported a captured dump")
	}
	// Large process: a dump bigger than the handler's initial 1 MiB buffer, with maxmem values that are
	// sufficient for it but are not a power-of-two multiple of 1 MiB (the grow-and-retry loop must use them fully).
	if !stuck.Load() {
		park := make(chan struct{})
		var pw sync.WaitGroup
		n := r.N(1100, 9000)
		base := parkedCount.Load()
		for i := 0; i < n; i++ {
			pw.Add(1)
			go func(d int) { defer pw.Done(); parkDeep(d, park, 0xc000000000, 7) }(8 + i%20)
		}
		// every goroutine is blocked at its full depth and two successive dumps have the same size: the dump the
		// handler captures can only differ by the few goroutines serving the request (margin 64 KiB).
		size := waitParked(base, int64(n))
		for size < 1<<20+1<<16 { // make sure the dump really exceeds 1 MiB
			for i := 0; i < 500; i++ {
				pw.Add(1)
				go func(d int) { defer pw.Done(); parkDeep(d, park, 0xc000000000, 7) }(8 + i%20)
			}
			n += 500
			size = waitParked(base, int64(n))
		}
		r.Set("large_dump_bytes", size)
		mms := []int{size + size/3, size + 65536}
		if !r.Quick() {
			mms = append(mms, 3*size+12345, 64<<20, 2*size-1)
		}
		for _, mm := range mms {
			q := fmt.Sprintf("maxmem=%d&augment=0", mm)
			lt := 5 * time.Minute
			if !r.Quick() {
				lt = 45 * time.Minute
			}
			resp, err := (&http.Client{Timeout: lt}).Get(srv.URL + "/debug/panicparse?" + q)
			r.Eval(1)
			if err != nil {
				if ne, ok := err.(interface{ Timeout() bool }); ok && ne.Timeout() {
					if st := blockedHandlerStack(); st != "" {
						r.Violation("handler-blocked", fmt.Sprintf("GET ?%s got no answer and a handler goroutine is parked inside the library:\n%s", q, st), "req", reqSpec{Method: "GET", Query: q, Valid: true})
					} else {
						r.Inconclusive(fmt.Sprintf("GET ?%s: the request watchdog fired while the handler was still running", q))
					}
					break
				}
				r.Violation("handler-no-response", fmt.Sprintf("GET ?%s: %v", q, err), "req", reqSpec{Method: "GET", Query: q, Valid: true})
				continue
			}
			body, rerr := io.ReadAll(resp.Body)
			resp.Body.Close()
			if ne, ok := rerr.(interface{ Timeout() bool }); ok && ne.Timeout() {
				// the watchdog cut the answer, not the handler
				if st := blockedHandlerStack(); st != "" {
					r.Violation("handler-blocked", fmt.Sprintf("GET ?%s: the answer stopped after %d bytes and a handler goroutine is parked inside the library:\n%s", q, len(body), st), "req", reqSpec{Method: "GET", Query: q, Valid: true})
				} else {
					r.Inconclusive(fmt.Sprintf("GET ?%s: the request watchdog fired while the answer was still being written", q))
				}
				break
			}
			headers, _ := strconv.Atoi(resp.Header.Get("X-Verif-Headers"))
			sum, _ := bucketSizes(body)
			if resp.StatusCode != 200 || sum != headers || headers < n {
				r.Violation("large-dump-maxmem", fmt.Sprintf("process with a %d-byte dump (%d parked goroutines), GET ?%s (sufficient maxmem): status %d, page accounts for %d goroutines, captured dump has %s bytes and %d headers; capture error: %q", size, n, q, resp.StatusCode, sum, resp.Header.Get("X-Verif-RawLen"), headers, resp.Header.Get("X-Verif-Err")), "req", reqSpec{Method: "GET", Query: q, Valid: true})
			}
			r.Count("large_dump_requests", 1)
		}
		close(park)
		pw.Wait()
	}
	for _, p := range panics {
		r.Violation("handler-panic", p, "req", nil)
	}
	raceCanary()
	canary, others, samples := raceReports()
	r.Set("race_reports_canary", canary)
	r.Set("race_reports_other", others)
	if canary == 0 {
		r.Broken("the racy canary was not reported: the race detector is not live")
	}
	for _, s := range samples {
		if strings.Contains(s, "maruel/panicparse") {
			r.Violation("data-race", "the race detector reports a data race in panicparse:\n"+s, "race", map[string]any{"report": s})
		} else {
			r.Broken("race in the harness itself:\n" + s)
		}
	}
}

// checkHTMLSafety applies the tokenizer rules of C17 without marker/count expectations.
func checkHTMLSafety(doc []byte, voc *vocabulary, m *marked) (string, string) {
	k, w := checkHTML(doc, voc, &marked{nBlocks: m.nBlocks, nFrames: -1})
	if k == "frame-count" {
		return "", ""
	}
	return k, w
}

func replayC20(r *core.Run, kind string, raw json.RawMessage) {
	if kind == "live" {
		var c liveCase
		if err := json.Unmarshal(raw, &c); err != nil {
			r.Broken(err.Error())
			return
		}
		liveEvalDump(r, &c)
		return
	}
	fmt.Println("handler witnesses depend on the live process and do not replay deterministically; the request is in the file")
}

// smallBufListener gives accepted connections a small send buffer so that the handler's writes block.
type smallBufListener struct{ net.Listener }

func (l *smallBufListener) Accept() (net.Conn, error) {
	c, err := l.Listener.Accept()
	if tc, ok := c.(*net.TCPConn); ok {
		_ = tc.SetWriteBuffer(16 << 10)
	}
	return c, err
}
