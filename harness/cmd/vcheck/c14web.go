package main

import (
	"fmt"
	"strings"
	"sync"
	"sync/atomic"
	"time"

	"verifharness/core"
)

//go:noinline
func c14WebPark(s string, started, stop chan struct{}) {
	close(started)
	<-stop
	_ = s
}

// c14Web: the web handler is the library's own concurrent user of scanning, aggregating and rendering. Requests
// with and without source analysis (augment=1 / augment=0) are issued one after the other and then concurrently:
// what a request gets depends on its own parameters only, not on earlier or simultaneous requests; the race
// detector watches the handler's shared state.
func c14Web(r *core.Run) {
	stop := make(chan struct{})
	started := make(chan struct{})
	go c14WebPark("hello", started, stop)
	<-started
	defer close(stop)
	var blocked atomic.Bool
	get := func(q string) (int, string) {
		if blocked.Load() {
			return 0, ""
		}
		code, body, verdict, st := callHandler("/debug/panicparse?"+q, 3*time.Minute)
		switch verdict {
		case "blocked":
			if !blocked.Swap(true) {
				r.Violation("web-handler-blocked", "?"+q+" gets no answer: a handler goroutine is parked inside the library:\n"+st, "conc", map[string]any{"query": q})
			}
		case "slow":
			if !blocked.Swap(true) {
				r.Inconclusive("web phase: the handler watchdog fired while the handler was still running")
			}
		}
		return code, body
	}
	// typed(page): the parked frame shows its string argument in typed form
	typed := func(page string) bool {
		i := strings.Index(page, "c14WebPark")
		return i >= 0 && strings.Contains(page[i:minI(len(page), i+1500)], "string(")
	}
	code, page := get("augment=1")
	r.Eval(1)
	if blocked.Load() {
		return
	}
	if code != 200 || !strings.Contains(page, "c14WebPark") {
		r.Broken(fmt.Sprintf("web phase: the parked goroutine is not on the page (status %d)", code))
		return
	}
	if !typed(page) {
		r.Broken("web phase: source analysis does not type the parked frame's arguments; the phase cannot observe anything")
		return
	}
	seq := []string{"augment=0", "augment=1", "augment=0&similarity=anyvalue", "", "augment=1&similarity=exactlines", "augment=0", "augment=1"}
	for i, q := range seq {
		code, page := get(q)
		r.Eval(1)
		if blocked.Load() {
			return
		}
		want := !strings.Contains(q, "augment=0")
		if code != 200 || typed(page) != want {
			r.Violation("web-request-depends-on-earlier-requests", fmt.Sprintf("request %d (?%s) of the sequence %q: status %d, typed arguments shown=%v, its own parameters ask for %v", i, q, seq, code, typed(page), want), "conc", map[string]any{"seq": seq, "i": i})
			return
		}
	}
	var wg sync.WaitGroup
	var mu sync.Mutex
	bad := ""
	for w := 0; w < 8; w++ {
		wg.Add(1)
		go func(w int) {
			defer wg.Done()
			for k := 0; k < r.N(6, 40); k++ {
				q := []string{"augment=0", "augment=1", "", "augment=0&similarity=anypointer"}[(w+k)%4]
				code, page := get(q)
				if blocked.Load() {
					return
				}
				want := !strings.Contains(q, "augment=0")
				if code != 200 || typed(page) != want {
					mu.Lock()
					bad = fmt.Sprintf("?%s answered %d with typed arguments shown=%v, its own parameters ask for %v", q, code, typed(page), want)
					mu.Unlock()
				}
			}
		}(w)
	}
	wg.Wait()
	r.Eval(8 * r.N(6, 40))
	if bad != "" {
		r.Violation("web-concurrent-requests-interfere", "concurrent requests: "+bad, "conc", nil)
	}
	r.Count("web_requests", len(seq)+1+8*r.N(6, 40))
}
