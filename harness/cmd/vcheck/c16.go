package main

import (
	"bytes"
	"encoding/json"
	"fmt"
	"os"
	"path/filepath"
	"regexp"
	"runtime"
	"strings"
	"unicode/utf8"

	"github.com/maruel/panicparse/v2/stack"

	"verifharness/core"
	"verifharness/gen"
)

func init() {
	checks["C16"] = check{level: "exploration", run: runC16, replay: replayC16}
}

type c16Case struct {
	Dump   *gen.Dump `json:"dump,omitempty"`
	Race   *gen.Race `json:"race,omitempty"`
	Path   string    `json:"path"` // "", -full-path, -rel-path
	Aggr   bool      `json:"aggressive"`
	Filter string    `json:"filter_re,omitempty"`
	// FS: the dump references a generated file-system layout (seed, index) that pp sees through GOROOT/GOPATH,
	// so that local paths, relative paths and every location class (colours) are exercised.
	// Raw: real crash output of the repository's cmd/panic (the dump part of it).
	Raw    []byte `json:"raw,omitempty"`
	FS     bool   `json:"fs,omitempty"`
	FSSeed int64  `json:"fs_seed,omitempty"`
	FSIdx  int    `json:"fs_idx,omitempty"`
}

// expected block, computed from the library's snapshot by the rules the property states.
type expBlock struct {
	header string
	frames []expFrame
	elided bool
}

type expFrame struct{ pkg, src, tail string }

func fmtSrc(c *stack.Call, pathMode string) string {
	switch pathMode {
	case "-rel-path":
		if c.RelSrcPath != "" {
			return fmt.Sprintf("%s:%d", c.RelSrcPath, c.Line)
		}
		fallthrough
	case "-full-path":
		if c.LocalSrcPath != "" {
			return fmt.Sprintf("%s:%d", c.LocalSrcPath, c.Line)
		}
		return fmt.Sprintf("%s:%d", c.RemoteSrcPath, c.Line)
	}
	return fmt.Sprintf("%s:%d", c.SrcName, c.Line)
}

func expHeader(n int, sig *stack.Signature, pathMode string, race *stack.Goroutine) string {
	h := fmt.Sprintf("%d: %s", n, sig.State)
	if sig.SleepMax != 0 {
		if sig.SleepMin != sig.SleepMax {
			h += fmt.Sprintf(" [%d~%d minutes]", sig.SleepMin, sig.SleepMax)
		} else {
			h += fmt.Sprintf(" [%d minutes]", sig.SleepMax)
		}
	}
	if sig.Locked {
		h += " [locked]"
	}
	if len(sig.CreatedBy.Calls) != 0 {
		c := &sig.CreatedBy.Calls[0]
		h += " [Created by " + c.Func.DirName + "." + c.Func.Name + " @ " + fmtSrc(c, pathMode) + "]"
	}
	if race != nil && race.RaceAddr != 0 {
		k := "read"
		if race.RaceWrite {
			k = "write"
		}
		h += fmt.Sprintf(" Race %s @ 0x%08x", k, race.RaceAddr)
	}
	return h
}

func expFrames(st *stack.Stack, pathMode string) []expFrame {
	var out []expFrame
	for i := range st.Calls {
		c := &st.Calls[i]
		out = append(out, expFrame{pkg: c.Func.DirName, src: fmtSrc(c, pathMode), tail: c.Func.Name + "(" + c.Args.String() + ")"})
	}
	return out
}

func (c *c16Case) input() []byte {
	if c.Raw != nil {
		return c.Raw
	}
	if c.Race != nil {
		return c.Race.Render()
	}
	return c.Dump.Render()
}

func (c *c16Case) baseArgs() []string {
	var a []string
	if c.Path != "-rel-path" && !c.FS {
		a = append(a, "-rebase=false")
	}
	if c.Path != "" {
		a = append(a, c.Path)
	}
	if c.Aggr {
		a = append(a, "-aggressive")
	}
	return a
}

func c16Opts(pathMode string) *stack.Opts {
	if pathMode == "-rel-path" {
		return &stack.Opts{LocalGOROOT: runtime.GOROOT(), LocalGOPATHs: []string{filepath.Join(os.Getenv("VERIF_WORK"), "nogopath")}, NameArguments: true, GuessPaths: true, AnalyzeSources: true}
	}
	return &stack.Opts{NameArguments: true}
}

var ansiRe = regexp.MustCompile("\x1b\\[[0-9;]*m")

// splitBlocks cuts pp's output into blocks: a header line followed by indented lines.
func splitBlocks(out []byte) (blocks [][]string, stray []string) {
	lines := strings.Split(strings.TrimSuffix(string(out), "\n"), "\n")
	if len(out) == 0 {
		return nil, nil
	}
	for _, l := range lines {
		if strings.HasPrefix(l, "    ") && len(blocks) > 0 {
			blocks[len(blocks)-1] = append(blocks[len(blocks)-1], l)
			continue
		}
		if len(l) > 0 && l[0] >= '0' && l[0] <= '9' {
			blocks = append(blocks, []string{l})
			continue
		}
		stray = append(stray, l)
	}
	return
}

func c16Eval(r *core.Run, c *c16Case) {
	var env []string
	opts := c16Opts(c.Path)
	if c.FS {
		dir := fsDir("c16", c.FSIdx)
		defer os.RemoveAll(dir)
		rr := core.NewRand(c.FSSeed, 161, uint64(c.FSIdx))
		l := gen.GenFS(rr, dir, &gen.FSCfg{Decoys: true})
		c.Dump = l.DumpFor(rr)
		gp := l.LocalGOPATHs
		if len(gp) == 0 {
			gp = []string{filepath.Join(os.Getenv("VERIF_WORK"), "go")} // pp's default: $HOME/go
		}
		env = []string{"GOROOT=" + l.LocalGOROOT, "GOPATH=" + strings.Join(l.LocalGOPATHs, ":")}
		opts = &stack.Opts{LocalGOROOT: l.LocalGOROOT, LocalGOPATHs: gp, NameArguments: true, GuessPaths: true, AnalyzeSources: true}
	}
	in := c.input()
	report := func(key, what string) {
		c2 := *c
		if c.FS {
			c2.Dump = nil
		}
		r.Violation(key, what, "console", &c2)
	}
	s, _, _, _ := scanAll(in, opts)
	if s == nil {
		report("nosnapshot", "generated input not parsed")
		return
	}
	var exp []expBlock
	if s.IsRace() {
		for _, g := range s.Goroutines {
			exp = append(exp, expBlock{header: expHeader(g.ID, &g.Signature, c.Path, g), frames: expFrames(&g.Stack, c.Path), elided: g.Stack.Elided})
		}
	} else {
		lvl := stack.AnyPointer
		if c.Aggr {
			lvl = stack.AnyValue
		}
		for _, b := range s.Aggregate(lvl).Buckets {
			exp = append(exp, expBlock{header: expHeader(len(b.IDs), &b.Signature, c.Path, nil), frames: expFrames(&b.Stack, c.Path), elided: b.Stack.Elided})
		}
	}
	base := c.baseArgs()
	plain := runPP(in, env, append(append([]string{}, base...), "-no-color")...)
	r.Eval(1)
	r.Count("pp_runs", 1)
	if plain.TimedOut {
		r.Inconclusive("pp watchdog fired")
		return
	}
	if plain.Exit != 0 {
		report("exit", fmt.Sprintf("pp exits %d: %s", plain.Exit, b2s(plain.Stderr, 300)))
		return
	}
	blocks, stray := splitBlocks(plain.Stdout)
	if len(stray) != 0 {
		report("stray-lines", fmt.Sprintf("output lines that belong to no block: %q", stray[:minI(3, len(stray))]))
		return
	}
	if len(blocks) != len(exp) {
		report("block-count", fmt.Sprintf("%d blocks printed, %d buckets/goroutines in the snapshot", len(blocks), len(exp)))
		return
	}
	col2, col3 := -1, -1
	for bi, blk := range blocks {
		e := &exp[bi]
		if blk[0] != e.header {
			report("header", fmt.Sprintf("block %d header %q want %q", bi, blk[0], e.header))
			return
		}
		want := len(e.frames)
		if e.elided {
			want++
		}
		if len(blk)-1 != want {
			report("frame-count", fmt.Sprintf("block %d (%s): %d lines, want %d frames (elided=%v)", bi, e.header, len(blk)-1, len(e.frames), e.elided))
			return
		}
		for fi, f := range e.frames {
			l := blk[1+fi]
			pre, suf := "    "+f.pkg, " "+f.tail
			if !strings.HasPrefix(l, pre) || !strings.HasSuffix(l, suf) || len(l) < len(pre)+len(suf) {
				report("frame-line", fmt.Sprintf("block %d frame %d: %q does not show package %q ... function/arguments %q", bi, fi, l, f.pkg, f.tail))
				return
			}
			mid := l[len(pre) : len(l)-len(suf)]
			// mid = spaces(a) + " " + src + spaces(b)
			ok := false
			for a := 0; a+1+len(f.src) <= len(mid); a++ {
				if strings.TrimLeft(mid[:a+1], " ") != "" {
					break
				}
				if strings.HasPrefix(mid[a+1:], f.src) && strings.TrimLeft(mid[a+1+len(f.src):], " ") == "" {
					b := len(mid) - (a + 1 + len(f.src))
					c2 := 4 + utf8.RuneCountInString(f.pkg) + a + 1
					c3 := c2 + utf8.RuneCountInString(f.src) + b + 1
					if col2 == -1 {
						col2, col3 = c2, c3
					}
					if c2 == col2 && c3 == col3 {
						ok = true
						break
					}
				}
			}
			if !ok {
				report("alignment", fmt.Sprintf("block %d frame %d: %q - file:line %q / function columns not at rune offsets %d / %d used by the first frame line", bi, fi, l, f.src, col2, col3))
				return
			}
		}
		if e.elided && blk[len(blk)-1] != "    (...)" {
			report("elided-marker", fmt.Sprintf("block %d: elided stack not followed by '    (...)', got %q", bi, blk[len(blk)-1]))
			return
		}
	}
	// colour independence
	col := runPP(in, env, append(append([]string{}, base...), "-force-color")...)
	r.Eval(1)
	r.Count("pp_runs", 1)
	if stripped := ansiRe.ReplaceAll(col.Stdout, nil); !bytes.Equal(stripped, plain.Stdout) || col.Exit != 0 {
		i := firstDiff(stripped, plain.Stdout)
		report("colour", fmt.Sprintf("coloured output with escape sequences removed differs from the uncoloured output at byte %d: %q vs %q", i, b2s(tailFrom(stripped, i), 100), b2s(tailFrom(plain.Stdout, i), 100)))
		return
	}
	if bytes.Equal(col.Stdout, plain.Stdout) && len(plain.Stdout) > 0 {
		report("colour-missing", "-force-color output carries no escape sequence at all")
		return
	}
	// filter / match complementarity
	if c.Filter != "" {
		fo := runPP(in, env, append(append([]string{}, base...), "-no-color", "-f", c.Filter)...)
		mo := runPP(in, env, append(append([]string{}, base...), "-no-color", "-m", c.Filter)...)
		r.Eval(2)
		r.Count("pp_runs", 2)
		if fo.Exit != 0 || mo.Exit != 0 {
			report("filter-exit", fmt.Sprintf("pp -f/-m %q exit %d/%d: %s %s", c.Filter, fo.Exit, mo.Exit, b2s(fo.Stderr, 200), b2s(mo.Stderr, 200)))
			return
		}
		fb, _ := splitBlocks(fo.Stdout)
		mb, _ := splitBlocks(mo.Stdout)
		re, rerr := regexp.Compile(c.Filter)
		fi, mi := 0, 0
		for bi, blk := range blocks {
			key := strings.Join(blk, "\n")
			inF := fi < len(fb) && strings.Join(fb[fi], "\n") == key
			inM := mi < len(mb) && strings.Join(mb[mi], "\n") == key
			if rerr == nil {
				// which side a block goes to is decided by the expression on its header line
				if re.MatchString(blk[0] + "\n") {
					inF = false
				} else {
					inM = false
				}
			}
			switch {
			case inF:
				fi++
			case inM:
				mi++
			default:
				report("filter-match-split", fmt.Sprintf("regexp %q: block %d (%q) is not in the output it belongs to (matching headers go to 'match only', the others to 'filter out')", c.Filter, bi, blk[0]))
				return
			}
		}
		if fi != len(fb) || mi != len(mb) {
			report("filter-match-split", fmt.Sprintf("regexp %q: 'filter out' has %d blocks and 'match only' %d, together they do not split the %d unfiltered blocks exactly in two", c.Filter, len(fb), len(mb), len(blocks)))
			return
		}
		if len(fb) > 0 && len(mb) > 0 {
			r.Count("filters_splitting_both_ways", 1)
		}
	}
}

func genC16(r *core.Run, i int) *c16Case {
	rr := core.NewRand(r.Seed, 16, uint64(i))
	c := &c16Case{Path: []string{"", "-full-path", "-rel-path"}[i%3], Aggr: (i/3)%2 == 1}
	if i%5 == 4 {
		c.Race = gen.GenRace(rr, &gen.RaceCfg{MaxOps: 4, MaxFrames: 5, CreateMode: rr.Intn(3)})
		c.Race.CRLF = false
	} else {
		cfg := &gen.Cfg{MaxG: 12, MaxFrames: 6, MaxDepth: 3, MaxArgs: 4, FewShapes: i%2 == 0, PtrPool: []uint64{0xc000012340, 0xc000012348, 3, 4}}
		if i%7 == 0 {
			cfg.MaxG = 40
		}
		c.Dump = gen.GenDump(rr, cfg, rr.Intn(864))
		c.Dump.F.CRLF = false
		for gi := range c.Dump.Gs {
			if cfg.FewShapes {
				c.Dump.Gs[gi].State = []string{"select", "chan receive", "IO wait"}[rr.Intn(3)]
			}
		}
	}
	if i%6 == 5 {
		c.Race, c.FS, c.FSSeed, c.FSIdx = nil, true, r.Seed, i
		c.Dump = nil
		c.Path = []string{"-full-path", "-rel-path", ""}[(i/6)%3]
	}
	if i%11 == 7 {
		// buckets of 11, 1 and 1 goroutines and expressions anchored at both ends: "1: ..." must not admit "11: ..."
		c.Race, c.FS = nil, false
		d := &gen.Dump{F: gen.Format{FileIndent: "\t"}}
		add := func(id int, state, fn string) {
			d.Gs = append(d.Gs, gen.Goroutine{ID: id, State: state, Frames: []gen.Frame{{Sym: gen.Sym{Pkg: "main", Name: fn}, File: "/src/app/" + fn + ".go", Line: 10, PCOff: 0x1d}}})
		}
		add(1, "running", "main")
		for k := 0; k < 11; k++ {
			add(10+k, "select", "worker")
		}
		add(30, "select", "reader")
		add(31, "IO wait", "poller")
		c.Dump = d
		c.Filter = []string{"^1: ", `^1: select\n$`, `\A1: select\n\z`, `^11: select\n$`, `^1: select`, `(?m)^1: select$`, `^1: IO wait\n$`}[rr.Intn(7)]
		return c
	}
	if i%2 == 0 {
		// a regexp drawn from what headers contain
		c.Filter = []string{"select", "chan receive|IO wait", "locked", "^1: ", "minutes", ".", "Created by", "^[2-9]", "zzzz", "Race write", "running|finished", `\[`}[rr.Intn(12)]
	}
	return c
}

func runC16(r *core.Run) {
	r.Rule("generated dumps and race reports (non-ASCII package and file names, 1..40 buckets, elided stacks, sleep ranges, locks, creators) rendered by the real pp binary under {base, -full-path, -rel-path} x {default, -aggressive}; the output is cut into blocks and compared with the buckets/goroutines the library yields for the same bytes: header pieces, one line per frame, the file:line and function columns at the same rune offsets on every frame line of the output, '(...)' after elided stacks; " +
		"-force-color output minus ESC[..m must equal the -no-color output; for regexps drawn from the headers the -f and -m outputs must split the unfiltered blocks exactly in two, order preserved. distinct by hash(input, flags); non-trivial = >= 2 blocks")
	r.Assume("bucket membership and order are taken from the library (C04/C05/C13 decide those); Args.String() is the textual form of arguments")
	// real crash output (dump part only: pp passes the text before it through unchanged, C02 decides that)
	names := realCrashNames()
	r.Set("real_crash_scenarios", len(names))
	core.Parallel(len(names), workers(), func(k int) {
		out := realCrashes()[names[k]]
		i := bytes.Index(out, []byte("\ngoroutine "))
		if j := bytes.Index(out, []byte("==================\nWARNING: DATA RACE")); j >= 0 {
			i = j - 1
		}
		if i < 0 {
			return
		}
		raw := out[i+1:]
		if e := bytes.Index(raw, []byte("\nexit status")); e >= 0 {
			raw = raw[:e+1]
		}
		for v := 0; v < 3; v++ {
			c := &c16Case{Raw: raw, Path: []string{"", "-full-path", "-rel-path"}[v], Aggr: k%2 == 0, Filter: []string{"", "running", "chan|select"}[v]}
			c16Eval(r, c)
		}
		r.Distinct(core.Hash64(raw))
	})
	n := r.N(2500, 40000)
	core.Parallel(n, workers(), func(i int) {
		c := genC16(r, i)
		c16Eval(r, c)
		if c.Dump == nil && c.Race == nil {
			return
		}
		r.Distinct(core.Hash64(c.input()) ^ uint64(i%6))
		r.Mark("flag_sets", fmt.Sprintf("path=%q aggressive=%v race=%v filter=%v fs=%v", c.Path, c.Aggr, c.Race != nil, c.Filter != "", c.FS))
		if i < 2 {
			out := runPP(c.input(), nil, append(c.baseArgs(), "-no-color")...)
			r.Sample(map[string]any{"input": b2s(c.input(), 600), "pp_stdout": b2s(out.Stdout, 900), "flags": c.baseArgs()})
		}
	})
}

func replayC16(r *core.Run, kind string, raw json.RawMessage) {
	var c c16Case
	if err := json.Unmarshal(raw, &c); err != nil {
		r.Broken(err.Error())
		return
	}
	c16Eval(r, &c)
}
