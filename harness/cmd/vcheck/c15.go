package main

import (
	"bytes"
	"encoding/json"
	"errors"
	"fmt"
	"io"
	"os"
	"sort"
	"strconv"
	"strings"

	"github.com/maruel/panicparse/v2/stack"

	"verifharness/core"
	"verifharness/gen"
	"verifharness/mon"
)

func init() {
	checks["C15"] = check{level: "exploration", run: runC15, replay: replayC15}
}

type c15Case struct {
	Dump *gen.Dump `json:"dump"`
	// Race: a race report instead of a dump, every frame (operation and creation stacks) with arguments.
	Race *gen.Race `json:"race,omitempty"`
	// Tail: "" the dump as printed; "garbled": cut after CutLine lines and followed by a function line without
	// its file line (the snapshot comes back together with a parse error); "readerr": the source fails after
	// CutLine lines (the snapshot comes back together with the reader's error).
	Tail    string `json:"tail,omitempty"`
	CutLine int    `json:"cut_line,omitempty"`
}

type c15FailingReader struct {
	data []byte
}

func (f *c15FailingReader) Read(p []byte) (int, error) {
	if len(f.data) == 0 {
		return 0, errors.New("connection reset by peer")
	}
	n := copy(p, f.data)
	f.data = f.data[n:]
	return n, nil
}

// c15Scan returns the snapshot of the case under the given options, and whether it came with an error.
func c15Scan(c *c15Case, opts *stack.Opts) (*stack.Snapshot, error) {
	if c.Race != nil {
		s, _, _, err := scanAll(c.Race.Render(), opts)
		return s, err
	}
	in := c.Dump.Render()
	if c.Tail == "" {
		s, _, _, err := scanAll(in, opts)
		return s, err
	}
	lines := bytes.SplitAfter(in, []byte("\n"))
	k := c.CutLine
	if k > len(lines) {
		k = len(lines)
	}
	cut := bytes.Join(lines[:k], nil)
	if c.Tail == "garbled" {
		cut = append(cut, []byte("main.broken(0x1)\nthis is not a file line\n")...)
		s, _, _, err := scanAll(cut, opts)
		return s, err
	}
	s, _, err := stack.ScanSnapshot(&c15FailingReader{data: cut}, io.Discard, opts)
	return s, err
}

type ptrOcc struct {
	count     int
	inPrimary bool
	names     map[string]bool
}

func walkArgs(a *stack.Args, f func(*stack.Arg)) {
	for i := range a.Values {
		if a.Values[i].IsAggregate {
			walkArgs(&a.Values[i].Fields, f)
		} else {
			f(&a.Values[i])
		}
	}
}

// checkNames verifies the labelling laws on a snapshot parsed with naming on.
func checkNames(s *stack.Snapshot) (key, what string) {
	occ := map[uint64]*ptrOcc{}
	byName := map[string]uint64{}
	for gi, g := range s.Goroutines {
		for ci := range g.Stack.Calls {
			bad := ""
			walkArgs(&g.Stack.Calls[ci].Args, func(a *stack.Arg) {
				if a.IsPtr != mon.PtrLike(a.Value) && !a.IsOffsetTooLarge {
					bad = fmt.Sprintf("IsPtr=%v for %#x", a.IsPtr, a.Value)
				}
				if !a.IsPtr {
					if a.Name != "" {
						bad = fmt.Sprintf("value %#x is not classified as a pointer but is named %q", a.Value, a.Name)
					}
					return
				}
				o := occ[a.Value]
				if o == nil {
					o = &ptrOcc{names: map[string]bool{}}
					occ[a.Value] = o
				}
				o.count++
				o.inPrimary = o.inPrimary || gi == 0
				o.names[a.Name] = true
				if a.Name != "" {
					if v, ok := byName[a.Name]; ok && v != a.Value {
						bad = fmt.Sprintf("name %s is carried by two different values %#x and %#x", a.Name, v, a.Value)
					}
					byName[a.Name] = a.Value
				}
			})
			if bad != "" {
				if strings.Contains(bad, "two different") {
					return "name-shared", bad
				}
				return "non-pointer-named", bad
			}
		}
		for ci := range g.CreatedBy.Calls {
			bad := false
			walkArgs(&g.CreatedBy.Calls[ci].Args, func(a *stack.Arg) { bad = bad || a.Name != "" })
			if bad {
				return "creator-arg-named", "a creator argument carries a name"
			}
		}
	}
	var vals []uint64
	for v, o := range occ {
		if len(o.names) != 1 {
			return "inconsistent-name", fmt.Sprintf("pointer %#x carries different names %v in one snapshot", v, keysOf(o.names))
		}
		if o.count > 1 && o.names[""] {
			return "recurring-unnamed", fmt.Sprintf("pointer %#x occurs %d times but has no name", v, o.count)
		}
		vals = append(vals, v)
	}
	sort.Slice(vals, func(i, j int) bool { return vals[i] < vals[j] })
	// density: names are exactly #1..#k
	k := len(byName)
	nums := map[uint64]int{}
	for name, v := range byName {
		if !strings.HasPrefix(name, "#") {
			return "name-format", fmt.Sprintf("unexpected name %q", name)
		}
		n, err := strconv.Atoi(name[1:])
		if err != nil || n < 1 || n > k {
			return "not-dense", fmt.Sprintf("name %s with %d names in total: numbering has gaps", name, k)
		}
		nums[v] = n
	}
	// ordering
	lastA, lastB, maxA, minB := 0, 0, 0, 1<<30
	for _, v := range vals {
		o := occ[v]
		n, named := nums[v]
		if !named {
			continue
		}
		switch {
		case o.inPrimary && o.count > 1:
			if n < lastA {
				return "order-first-group", fmt.Sprintf("pointers recurring in the first goroutine are not numbered by ascending address: %#x is #%d after #%d", v, n, lastA)
			}
			lastA = n
			if n > maxA {
				maxA = n
			}
		case !o.inPrimary:
			if n < lastB {
				return "order-second-group", fmt.Sprintf("pointers never in the first goroutine are not numbered by ascending address: %#x is #%d after #%d", v, n, lastB)
			}
			lastB = n
			if n < minB {
				minB = n
			}
		}
	}
	if maxA > minB {
		return "groups-interleaved", fmt.Sprintf("a pointer that never appears in the first goroutine (#%d) is numbered before one that recurs in it (#%d)", minB, maxA)
	}
	return "", ""
}

func keysOf(m map[string]bool) []string {
	var out []string
	for k := range m {
		out = append(out, k)
	}
	sort.Strings(out)
	return out
}

func c15Eval(r *core.Run, c *c15Case) {
	on, err := c15Scan(c, namingOpts())
	off, _ := c15Scan(c, plainOpts())
	r.Eval(2)
	report := func(key, what string) {
		if c.Tail != "" {
			what += fmt.Sprintf(" (snapshot returned together with the error %v)", err)
		}
		r.Violation(key, what, "names", c)
	}
	if on == nil || off == nil {
		if c.Tail != "" {
			return // cut before the first goroutine: nothing to label
		}
		report("nosnapshot", "generated dump not parsed")
		return
	}
	if c.Tail != "" {
		if err != nil && err != io.EOF {
			r.Count("snapshots_returned_with_an_error", 1)
		}
	}
	if k, w := checkNames(on); k != "" {
		report(k, w)
		return
	}
	named := false
	for _, g := range off.Goroutines {
		for ci := range g.Stack.Calls {
			walkArgs(&g.Stack.Calls[ci].Args, func(a *stack.Arg) { named = named || a.Name != "" })
		}
	}
	if named {
		report("named-with-naming-off", "an argument carries a name although NameArguments is off")
		return
	}
	if d := mon.DiffSnapshot(on, off, mon.EqOpt{IgnoreNames: true}); d != "" {
		report("naming-changes-other-field", "naming changed something else than names: "+d)
	}
}

func genC15(r *core.Run, i int) *c15Case {
	rr := core.NewRand(r.Seed, 15, uint64(i))
	np := []int{0, 1, 2, 3, 5, 8, 20, 60, 500}[rr.Intn(9)]
	var pool []uint64
	for k := 0; k < np; k++ {
		switch rr.Intn(6) {
		case 0:
			pool = append(pool, []uint64{512 * 1024, 512*1024 + 1, 512*1024 + 2, 1<<63 - 2, 1<<63 - 1, 1 << 63}[rr.Intn(6)])
		default:
			pool = append(pool, 0xc000000000+uint64(rr.Intn(4*np+4))*8)
		}
	}
	cfg := &gen.Cfg{MaxG: 6, MaxFrames: 5, MaxDepth: 5, MaxArgs: 5, PtrPool: pool}
	if np >= 60 {
		cfg.MaxG, cfg.MaxFrames, cfg.MaxArgs = 12, 10, 8
	}
	if i%6 == 4 && len(pool) > 0 {
		// a race report: its "created at" frames are printed with arguments too, which are not part of any
		// goroutine's stack - the labels over the stacks still have to be dense and ordered
		return &c15Case{Race: gen.GenRace(rr, &gen.RaceCfg{MaxOps: 3, MaxFrames: 4, CreateMode: 1, ForceArgs: true, PtrPool: pool})}
	}
	c := &c15Case{Dump: gen.GenDump(rr, cfg, rr.Intn(864))}
	if i%5 == 3 {
		// the labelling laws hold for every snapshot handed out, also one that comes with an error
		c.Tail = []string{"garbled", "readerr"}[rr.Intn(2)]
		c.CutLine = 3 + rr.Intn(3+bytes.Count(c.Dump.Render(), []byte("\n")))
	}
	return c
}

func runC15(r *core.Run) {
	r.Rule("dumps printed by G-DUMP whose pointer-like values are drawn from pools of 0..500 distinct addresses (forced recurrence across goroutines, frames and nested aggregate fields; values at the classification boundaries 512Ki, 512Ki+1, 2^63-2, 2^63-1), parsed with naming on and off; one case in five is cut at a line and ends in a malformed frame or in a reader error, so that the snapshot is handed out together with an error; " +
		"the labelling laws (same value <=> same name, recurring => named, names #1..#k dense, ascending by address within 'recurs in the first goroutine' and within 'never in the first goroutine', first group before second, non-pointers never named, naming off => no names, nothing else changes) are checked literally. distinct by hash; non-trivial = >= 2 distinct pointer values")
	r.Assume("pointers occurring once in the first goroutine may or may not be named (not stated)")
	n := r.N(150000, 3000000)
	core.Parallel(n, workers(), func(i int) {
		c := genC15(r, i)
		c15Eval(r, c)
		if c.Race != nil {
			r.Distinct(core.Hash64(c.Race.Render()))
			r.Count("race_reports_with_arguments_in_creation_frames", 1)
			return
		}
		r.Distinct(core.Hash64(c.Dump.Render()))
		if i < 2 {
			r.Sample(map[string]any{"dump": b2s(c.Dump.Render(), 900)})
		}
	})
	c15Sources(r)
}

// c15Sources: the labelling laws on real tracebacks of generated programs scanned with path guessing and
// source analysis on top of naming (the default options): analysis runs after naming and must leave the labels and
// the pointer classification alone. The programs pass slices and strings whose length is above the classification
// floor, so that words which are not addresses get named.
func c15Sources(r *core.Run) {
	np := r.N(3, 24)
	core.Parallel(np, workers(), func(k int) {
		c := &c19Case{Seed: r.Seed, Idx: 15000 + k, Toolchain: "go", Naming: true}
		bp, err := buildAndCrash(c)
		if err != nil {
			r.Broken(err.Error())
			return
		}
		defer os.RemoveAll(bp.dir)
		on, _, _, _ := scanAll(bp.trace, c19Opts(bp.goroot, true, true))
		plain, _, _, _ := scanAll(bp.trace, c19Opts(bp.goroot, false, true))
		r.Eval(2)
		report := func(key, what string) {
			r.Violation(key, "real traceback, naming + source analysis: "+what, "srcnames", map[string]any{"trace": string(bp.trace), "src": bp.prog.Src, "src2": bp.prog.Src2})
		}
		if on == nil || plain == nil {
			report("nosnapshot", "real traceback not parsed")
			return
		}
		if k, w := checkNames(on); k != "" {
			report(k, w)
			return
		}
		if d := mon.DiffSnapshot(plain, on, mon.EqOpt{IgnoreProcessed: true}); d != "" {
			report("analysis-changes-labelling", "source analysis changed names or classification: "+d)
			return
		}
		named, typed := 0, 0
		for _, g := range on.Goroutines {
			for ci := range g.Stack.Calls {
				if len(g.Stack.Calls[ci].Args.Processed) != 0 {
					typed++
				}
				walkArgs(&g.Stack.Calls[ci].Args, func(a *stack.Arg) {
					if a.Name != "" {
						named++
					}
				})
			}
		}
		r.Count("source_phase_named_arguments", named)
		r.Count("source_phase_frames_with_typed_args", typed)
		r.DistinctN(1)
	})
	if r.Counter("source_phase_named_arguments") == 0 || r.Counter("source_phase_frames_with_typed_args") == 0 {
		r.Broken("the source phase of C15 saw no named argument or no typed frame")
	}
}

func replayC15(r *core.Run, kind string, raw json.RawMessage) {
	var c c15Case
	if err := json.Unmarshal(raw, &c); err != nil {
		r.Broken(err.Error())
		return
	}
	c15Eval(r, &c)
}
