package main

import (
	"bytes"
	"context"
	"os"
	"os/exec"
	"path/filepath"
	"time"
)

// ppPath is the pp binary built from the tree under test by ./check.
func ppPath() string {
	return filepath.Join(os.Getenv("VERIF_BIN"), "pp")
}

type ppResult struct {
	Stdout, Stderr []byte
	Exit           int
	TimedOut       bool
}

// runPP runs pp with stdin and returns what it printed. The timeout is a
// watchdog only (inconclusive when it fires), never a verdict.
func runPP(stdin []byte, env []string, args ...string) ppResult {
	ctx, cancel := context.WithTimeout(context.Background(), 120*time.Second)
	defer cancel()
	cmd := exec.CommandContext(ctx, ppPath(), args...)
	cmd.Stdin = bytes.NewReader(stdin)
	var so, se bytes.Buffer
	cmd.Stdout, cmd.Stderr = &so, &se
	cmd.Env = append([]string{"GOTRACEBACK=all", "TERM=dumb", "HOME=" + os.Getenv("VERIF_WORK"), "GOPATH=" + filepath.Join(os.Getenv("VERIF_WORK"), "nogopath"), "PATH=" + os.Getenv("PATH"), "GOCOVERDIR=" + os.Getenv("GOCOVERDIR")}, env...)
	err := cmd.Run()
	res := ppResult{Stdout: so.Bytes(), Stderr: se.Bytes()}
	if ctx.Err() != nil {
		res.TimedOut = true
		res.Exit = -1
		return res
	}
	if err != nil {
		if ee, ok := err.(*exec.ExitError); ok {
			res.Exit = ee.ExitCode()
		} else {
			res.Exit = -2
		}
	}
	return res
}

// crashed: the Go runtime exits with status 2 after a panic or fatal error
// and a killed process has no exit status; pp's own failures exit 1.
func crashed(res *ppResult) bool {
	if res.TimedOut {
		return false
	}
	return res.Exit == 2 || res.Exit < 0
}

// runPPEnv is runPP with GOTRACEBACK optionally unset (pp then adds its banner / footer for single-goroutine dumps).
func runPPEnv(stdin []byte, unsetTraceback bool, args ...string) ppResult {
	if !unsetTraceback {
		return runPP(stdin, nil, args...)
	}
	ctx, cancel := context.WithTimeout(context.Background(), 120*time.Second)
	defer cancel()
	cmd := exec.CommandContext(ctx, ppPath(), args...)
	cmd.Stdin = bytes.NewReader(stdin)
	var so, se bytes.Buffer
	cmd.Stdout, cmd.Stderr = &so, &se
	cmd.Env = []string{"TERM=dumb", "HOME=" + os.Getenv("VERIF_WORK"), "GOPATH=" + filepath.Join(os.Getenv("VERIF_WORK"), "nogopath"), "PATH=" + os.Getenv("PATH"), "GOCOVERDIR=" + os.Getenv("GOCOVERDIR")}
	err := cmd.Run()
	res := ppResult{Stdout: so.Bytes(), Stderr: se.Bytes()}
	if ctx.Err() != nil {
		res.TimedOut, res.Exit = true, -1
		return res
	}
	if err != nil {
		if ee, ok := err.(*exec.ExitError); ok {
			res.Exit = ee.ExitCode()
		} else {
			res.Exit = -2
		}
	}
	return res
}
