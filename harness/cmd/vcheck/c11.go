package main

import (
	"bytes"
	"encoding/json"
	"fmt"
	"io"
	"os"
	"os/exec"
	"path/filepath"
	"strings"
	"sync"
	"sync/atomic"
	"syscall"
	"time"

	"github.com/maruel/panicparse/v2/stack"

	"verifharness/core"
	"verifharness/gen"
	"verifharness/sched"
)

func init() {
	checks["C11"] = check{level: "exploration", run: runC11, replay: replayC11}
}

type c11Case struct {
	T0     gen.BinStr `json:"t0"`
	Dump   *gen.Dump  `json:"dump,omitempty"`
	Race   *gen.Race  `json:"race,omitempty"`
	T1     gen.BinStr `json:"t1"`
	Chunks []int      `json:"chunks"`
	Hoard  bool       `json:"hoard,omitempty"` // positive control: a reader that reads ahead
}

// hoarder is the positive control: it drains its source before delivering.
type hoarder struct {
	src  io.Reader
	buf  []byte
	done bool
}

func (h *hoarder) Read(p []byte) (int, error) {
	if !h.done {
		tmp := make([]byte, 4096)
		for {
			n, err := h.src.Read(tmp)
			h.buf = append(h.buf, tmp[:n]...)
			if err != nil {
				break
			}
		}
		h.done = true
	}
	if len(h.buf) == 0 {
		return 0, io.EOF
	}
	n := copy(p, h.buf)
	h.buf = h.buf[n:]
	return n, nil
}

// minForwarded is the number of bytes of text t (delivered up to d) that must
// already have been forwarded when the source blocks: all complete lines,
// except trailing lines that could still start a race report.
func minForwarded(t []byte, d int) int {
	if d > len(t) {
		d = len(t)
	}
	end := bytes.LastIndexByte(t[:d], '\n') + 1
	// strip up to two trailing potential race header lines
	trim := func(e int, line string) int {
		for _, eol := range []string{"\n", "\r\n"} {
			l := line + eol
			if e >= len(l) && string(t[e-len(l):e]) == l && (e == len(l) || t[e-len(l)-1] == '\n') {
				return e - len(l)
			}
		}
		return e
	}
	if e := trim(end, "WARNING: DATA RACE"); e != end {
		if e2 := trim(e, "=================="); e2 != e {
			return e2
		}
		return end
	}
	return trim(end, "==================")
}

// c11Eval runs one library-level case. Returns true if the monitor fired.
func c11Eval(r *core.Run, c *c11Case, control bool) bool {
	var body []byte
	if c.Dump != nil {
		body = c.Dump.Render()
	} else if c.Race != nil {
		body = c.Race.Render()
	}
	t0, t1 := []byte(c.T0), []byte(c.T1)
	in := append(append(append([]byte{}, t0...), body...), t1...)
	// e: offset at which the line that ends the dump is completely delivered.
	retAt := -1
	if len(body) > 0 {
		if c.Race != nil {
			retAt = len(t0) + len(body)
		} else if i := bytes.IndexByte(t1, '\n'); i >= 0 {
			retAt = len(t0) + len(body) + i + 1
		}
	}
	hdrEnd := len(t0)
	if i := bytes.IndexByte(body, '\n'); i >= 0 {
		hdrEnd += i + 1
	}
	var w bytes.Buffer
	fired := ""
	src := &sched.Scripted{Data: in, Chunks: c.Chunks, Rest: 1 << 20}
	src.OnRead = func(call, delivered int) {
		if fired != "" {
			return
		}
		if len(body) == 0 || delivered <= len(t0) {
			if m := minForwarded(t0, delivered); w.Len() < m {
				fired = fmt.Sprintf("source about to block after %d bytes: %d bytes forwarded, complete non-dump lines delivered so far amount to %d bytes", delivered, w.Len(), m)
			}
		} else {
			m := minForwarded(t0, len(t0))
			if delivered >= hdrEnd && c.Dump != nil {
				m = len(t0) // the dump header arrived: withheld separator lines are known to be junk
			}
			if w.Len() < m {
				fired = fmt.Sprintf("source about to block after %d bytes (inside the dump): only %d of the %d bytes of text before the dump forwarded", delivered, w.Len(), m)
			}
		}
		if retAt >= 0 && delivered >= retAt && !control {
			fired = fmt.Sprintf("Read issued after the line that ends the dump was delivered (delivered %d >= %d): the snapshot is withheld until more input arrives", delivered, retAt)
		}
	}
	var rd io.Reader = src
	if c.Hoard {
		rd = &hoarder{src: src}
	}
	var panicked any
	func() {
		defer func() { panicked = recover() }()
		_, _, _ = stack.ScanSnapshot(rd, &w, plainOpts())
	}()
	if control {
		return fired != ""
	}
	r.Eval(1)
	r.Count("blocking_points_observed", src.Calls)
	if panicked != nil {
		r.Violation("panic", fmt.Sprintf("panic: %v", panicked), "lib", c)
		return true
	}
	if fired != "" {
		key := "withheld-line"
		if retAt >= 0 && src.Delivered() >= retAt && bytes.Contains([]byte(fired), []byte("Read issued after")) {
			key = "late-return"
		}
		r.Violation(key, fired, "lib", c)
		return true
	}
	return false
}

func genC11(r *core.Run, i int) *c11Case {
	rr := core.NewRand(r.Seed, 11, uint64(i))
	eol := "\n"
	if rr.Chance(1, 5) {
		eol = "\r\n"
	}
	c := &c11Case{}
	c.T0 = gen.BinStr(gen.Junk(rr, &gen.JunkCfg{Separators: true, Binary: true, Long: i%13 == 0}, rr.Intn(8), eol))
	switch rr.Intn(4) {
	case 0:
	case 1:
		rc := gen.GenRace(rr, &gen.RaceCfg{MaxOps: 3, MaxFrames: 3, CreateMode: rr.Intn(3)})
		rc.CRLF, rc.NoFinalEOL = eol == "\r\n", false
		c.Race = rc
		c.T1 = gen.BinStr(gen.Junk(rr, &gen.JunkCfg{}, 1+rr.Intn(3), eol))
	default:
		s := gen.GenStream(rr, &gen.StreamCfg{MaxDumps: 1, Junk: gen.JunkCfg{}, DumpCfg: gen.Cfg{MaxG: 3, MaxFrames: 3, MaxDepth: 2}})
		for k, sg := range s.Segs {
			if sg.Dump != nil {
				c.Dump = sg.Dump
				if k+1 < len(s.Segs) {
					c.T1 = s.Segs[k+1].Text
				}
				if ind := sg.Dump.F.Indent; ind != "" && strings.HasPrefix(string(c.T1), ind) && rr.Chance(1, 3) {
					// the text after an indented dump is less indented than the dump (a test log going on): the line
					// cannot belong to the dump whatever it says, the snapshot is due once it is delivered
					rest := string(c.T1)[len(ind):]
					if first := strings.TrimRight(strings.SplitN(rest, "\n", 2)[0], "\r"); first != "" && !strings.HasPrefix(rest, ind) {
						c.T1 = gen.BinStr(rest)
					}
				}
				if sg.Dump.F.CRLF != (eol == "\r\n") {
					c.T0 = gen.BinStr(gen.Junk(rr, &gen.JunkCfg{Separators: true}, rr.Intn(6), sg.Dump.EOL()))
				}
				if sg.Dump.F.Indent == "" && !sg.Dump.F.TrailBlank && !sg.Dump.F.NoFinalEOL && rr.Chance(1, 4) {
					// the next dump follows without an empty line (a collector that drops them): its header is the first
					// line that cannot belong to this dump, the snapshot is due as soon as that line is there
					d2 := gen.GenDump(rr, &gen.Cfg{MaxG: 2, MaxFrames: 2, MaxDepth: 1, FixedFmt: &gen.Format{CRLF: sg.Dump.F.CRLF, FileIndent: "\t"}}, 0)
					d2.F.NoFinalEOL = false
					c.T1 = gen.BinStr(d2.Render())
				}
			}
		}
	}
	// junk that happens to spell the three lines that legitimately start a race report is a report, not junk
	c.T0 = gen.BinStr(gen.DefuseRaceStart(string(c.T0)))
	total := len(c.T0) + len(c.T1) + 4000
	switch i % 4 {
	case 0:
		for n := 0; n < total; n++ {
			c.Chunks = append(c.Chunks, 1)
		}
	case 1:
		for n := 0; n < total; {
			k := 1 + rr.Intn(40)
			c.Chunks = append(c.Chunks, k)
			n += k
		}
	case 2:
		for n := 0; n < total; {
			k := 1 + rr.Intn(3000)
			c.Chunks = append(c.Chunks, k)
			n += k
		}
	default:
		for n := 0; n < total; {
			k := 1 + rr.Intn(200)
			if rr.Chance(1, 8) {
				c.Chunks = append(c.Chunks, 0)
			}
			c.Chunks = append(c.Chunks, k)
			n += k
		}
	}
	return c
}

// ---------------------------------------------------------------------------
// End to end through pipes.

type e2eCase struct {
	Pieces []gen.BinStr `json:"pieces"`
	// Expect[i]: what stdout must contain once piece i was written
	// (prefix = exact prefix of stdout; suffix = stdout ends with it, "" = nothing new required).
	Prefix []gen.BinStr `json:"prefix"`
	Suffix []gen.BinStr `json:"suffix"`
	// Fifo: pp gets the stream through a named pipe given as its file argument (pp <(prog 2>&1)) instead of stdin.
	Fifo bool `json:"fifo,omitempty"`
}

var fifoSeq atomic.Int64

type outBuf struct {
	mu sync.Mutex
	b  []byte
}

func (o *outBuf) Write(p []byte) (int, error) {
	o.mu.Lock()
	o.b = append(o.b, p...)
	o.mu.Unlock()
	return len(p), nil
}

func (o *outBuf) snapshot() []byte {
	o.mu.Lock()
	defer o.mu.Unlock()
	return append([]byte(nil), o.b...)
}

func e2eEval(r *core.Run, c *e2eCase) {
	args := []string{"-rebase=false"}
	fifo := ""
	if c.Fifo {
		fifo = filepath.Join(os.Getenv("VERIF_WORK"), fmt.Sprintf("fifo-%d", fifoSeq.Add(1)))
		if err := syscall.Mkfifo(fifo, 0o600); err != nil {
			r.Broken("mkfifo: " + err.Error())
			return
		}
		defer os.Remove(fifo)
		args = append(args, fifo)
	}
	cmd := exec.Command(filepath.Join(os.Getenv("VERIF_BIN"), "pp"), args...)
	cmd.Env = []string{"GOTRACEBACK=all", "TERM=dumb", "PATH=" + os.Getenv("PATH"), "HOME=" + os.Getenv("VERIF_WORK"), "GOCOVERDIR=" + os.Getenv("GOCOVERDIR")}
	var stdin io.WriteCloser
	var err error
	if !c.Fifo {
		if stdin, err = cmd.StdinPipe(); err != nil {
			r.Broken(err.Error())
			return
		}
	}
	out := &outBuf{}
	cmd.Stdout = out
	var se bytes.Buffer
	cmd.Stderr = &se
	if err := cmd.Start(); err != nil {
		r.Broken("cannot start pp: " + err.Error())
		return
	}
	if c.Fifo {
		// opening the write end blocks until pp has opened the read end
		w, err := os.OpenFile(fifo, os.O_WRONLY, 0)
		if err != nil {
			_ = cmd.Process.Kill()
			_ = cmd.Wait()
			r.Broken("cannot open the fifo for writing: " + err.Error())
			return
		}
		stdin = w
		r.Count("e2e_fifo_sessions", 1)
	}
	r.Eval(1)
	satisfied := func(i int) bool {
		o := out.snapshot()
		return bytes.HasPrefix(o, []byte(c.Prefix[i])) && bytes.HasSuffix(o, []byte(c.Suffix[i]))
	}
	late := -1
	for i, p := range c.Pieces {
		if _, err := stdin.Write([]byte(p)); err != nil {
			break
		}
		ok := false
		// Generous wait (up to ~2 min while pp is blocked on its input and nothing else can make it emit).
		// Its expiry alone decides nothing: the verdict comes from what happens after more input is given.
		limit := 12000
		if r.Violations() > 0 {
			limit = 300 // the verdict is already "violated": no need for the long causal wait in the other sessions
		}
		for w := 0; w < limit && late < 0; w++ {
			if satisfied(i) {
				ok = true
				if w > 800 {
					r.Count("e2e_slow_but_present", 1)
				}
				break
			}
			time.Sleep(10 * time.Millisecond)
		}
		r.Count("e2e_blocking_points", 1)
		if !ok && late < 0 {
			late = i
		}
	}
	stdin.Close()
	_ = cmd.Wait()
	if late >= 0 {
		// Causal classification: the expected bytes were not there while pp was
		// blocked on input, did they appear once more input / EOF arrived?
		o := out.snapshot()
		if bytes.HasPrefix(o, []byte(c.Prefix[late])) {
			r.Violation("e2e-withheld", fmt.Sprintf("after piece %d (%q) pp had not written the complete lines delivered so far; they appeared only after more input or EOF", late, b2s([]byte(c.Pieces[late]), 80)), "e2e", c)
		} else {
			r.Count("e2e_never_appeared_C02_business", 1)
		}
	}
}

func genE2E(r *core.Run, i int) *e2eCase {
	rr := core.NewRand(r.Seed, 111, uint64(i))
	c := &e2eCase{}
	var in, exp []byte
	emit := func(piece string, newExp []byte, suffix string) {
		in = append(in, piece...)
		c.Pieces = append(c.Pieces, gen.BinStr(piece))
		c.Prefix = append(c.Prefix, gen.BinStr(newExp))
		c.Suffix = append(c.Suffix, gen.BinStr(suffix))
	}
	if i%3 == 2 {
		// a burst of complete lines that exactly fills (a multiple of) pp's 16 KiB read buffer, then the
		// producer blocks: everything delivered must come out
		size := []int{16384, 32768, 16384 - 64, 16384 + 64, 8192, 49152}[rr.Intn(6)]
		var burst []byte
		for n := 0; len(burst) < size; n++ {
			line := fmt.Sprintf("%04d %s\n", n, strings.Repeat("x", 58))
			if len(burst)+len(line) > size {
				line = strings.Repeat("y", size-len(burst)-1) + "\n"
			}
			burst = append(burst, line...)
		}
		exp = append(exp, burst...)
		emit(string(burst), append([]byte{}, exp...), "")
		tail := "after the burst\n"
		exp = append(exp, tail...)
		emit(tail, append([]byte{}, exp...), "")
		return c
	}
	nl := 2 + rr.Intn(5)
	for k := 0; k < nl; k++ {
		line := gen.JunkLine(rr, &gen.JunkCfg{}) + "\n"
		if len(line) > 300 {
			line = "short\n"
		}
		if rr.Bool() && len(line) > 3 {
			cut := 1 + rr.Intn(len(line)-2)
			emit(line[:cut], append([]byte{}, exp...), "")
			exp = append(exp, line...)
			emit(line[cut:], append([]byte{}, exp...), "")
		} else {
			exp = append(exp, line...)
			emit(line, append([]byte{}, exp...), "")
		}
	}
	if i%2 == 0 {
		d := gen.GenDump(rr, &gen.Cfg{MaxG: 2, MaxFrames: 3, MaxDepth: 1, NoUnavail: true}, 0)
		d.F = gen.Format{FileIndent: "\t"}
		body := string(d.Render())
		half := len(body) / 2
		emit(body[:half], append([]byte{}, exp...), "")
		emit(body[half:], append([]byte{}, exp...), "")
		term := "2026/10/02 the line after the dump\n"
		emit(term, append([]byte{}, exp...), term)
	}
	return c
}

func runC11(r *core.Run) {
	r.Rule("library: streams T0 [D T1] delivered by a scripted reader in arbitrary pieces (1-byte, random small/large chunks, zero-length reads); at the entry of EVERY Read (= the moment a live source may block) the monitor compares the bytes the prefix writer has received with the complete non-dump lines delivered so far " +
		"(a trailing '==================' [+ 'WARNING: DATA RACE'] may be withheld), and flags any Read issued after the line that ends a dump was delivered; a read-ahead reader is the positive control. " +
		"end to end: pp on pipes, piece by piece, causal classification (bytes that appear only after more input/EOF). distinct = hash(case); non-trivial = >= 2 blocking points")
	r.Assume("a Read call is the only point where the source can block", "the e2e waits are watchdogs; only the causal order (appeared before / only after more input) decides")
	n := r.N(60000, 1500000)
	core.Parallel(n, workers(), func(i int) {
		c := genC11(r, i)
		c11Eval(r, c, false)
		b, _ := json.Marshal(c)
		r.Distinct(core.Hash64(b))
		if i < 2 {
			r.Sample(map[string]any{"t0": core.Trunc(string(c.T0), 300), "has_dump": c.Dump != nil, "has_race": c.Race != nil, "chunks_head": c.Chunks[:minI(8, len(c.Chunks))]})
		}
	})
	// positive control
	fired := 0
	for i := 0; i < 50; i++ {
		c := genC11(r, i)
		if len(c.T0) < 40 {
			continue
		}
		c.Hoard = true
		if c11Eval(r, c, true) {
			fired++
		}
	}
	r.Set("control_readahead_reader_flagged", fired)
	if fired == 0 {
		r.Broken("positive control (read-ahead reader) was not flagged by the streaming monitor")
	}
	ne := r.N(24, 400)
	core.Parallel(ne, 8, func(i int) {
		c := genE2E(r, i)
		c.Fifo = i%4 == 3
		e2eEval(r, c)
		b, _ := json.Marshal(c)
		r.Distinct(core.Hash64(b))
	})
	r.Count("e2e_sessions", ne)
}

func minI(a, b int) int {
	if a < b {
		return a
	}
	return b
}

func replayC11(r *core.Run, kind string, raw json.RawMessage) {
	switch kind {
	case "lib":
		var c c11Case
		if err := json.Unmarshal(raw, &c); err != nil {
			r.Broken(err.Error())
			return
		}
		c11Eval(r, &c, false)
	case "e2e":
		var c e2eCase
		if err := json.Unmarshal(raw, &c); err != nil {
			r.Broken(err.Error())
			return
		}
		e2eEval(r, &c)
	}
}
