package main

import (
	"net/http"
	"net/http/httptest"
	"sync"

	"github.com/maruel/panicparse/v2/stack/webstack"

	"verifharness/core"
)

//go:noinline
func parkDeep(n int, ch chan struct{}, a, b uintptr) int {
	if n == 0 {
		<-ch
		return 0
	}
	return parkDeep(n-1, ch, a+1, b+2) + 1
}

// webCutRounds: the handler with maxmem below the size of the dump parses a
// dump truncated at an arbitrary byte: it must answer 200 or 500, never crash.
func webCutRounds(r *core.Run, rounds int) {
	for k := 0; k < rounds; k++ {
		rr := core.NewRand(r.Seed, 1010, uint64(k))
		ch := make(chan struct{})
		var wg sync.WaitGroup
		n := 2500 + rr.Intn(1500)
		for i := 0; i < n; i++ {
			wg.Add(1)
			go func(d int) { defer wg.Done(); parkDeep(d, ch, 0xc000000000, 7) }(5 + rr.Intn(25))
		}
		func() {
			defer func() {
				if p := recover(); p != nil {
					r.Violation("web-cut-panic", "handler panicked on a dump truncated at maxmem", "webcut", map[string]any{"goroutines": n})
				}
			}()
			for _, q := range []string{"maxmem=1048576&augment=0", "maxmem=1&augment=0", "maxmem=1500000&augment=0&similarity=anyvalue"} {
				req := httptest.NewRequest("GET", "/debug?"+q, nil)
				w := httptest.NewRecorder()
				webstack.SnapshotHandler(w, req)
				r.Eval(1)
				r.Count("web_cut_requests", 1)
				if w.Code != http.StatusOK && w.Code != http.StatusInternalServerError {
					r.Violation("web-cut-status", "handler answered "+http.StatusText(w.Code)+" for a truncated dump", "webcut", map[string]any{"query": q, "goroutines": n})
				}
				r.Mark("web_cut_status", http.StatusText(w.Code))
			}
		}()
		close(ch)
		wg.Wait()
	}
}
