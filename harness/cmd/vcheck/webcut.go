package main

import (
	"net/http"
	"sync"
	"sync/atomic"
	"time"

	"verifharness/core"
)

var parkedCount atomic.Int64

//go:noinline
func parkDeep(n int, ch chan struct{}, a, b uintptr) int {
	if n == 0 {
		parkedCount.Add(1) // about to block at full depth
		<-ch
		return 0
	}
	return parkDeep(n-1, ch, a+1, b+2) + 1
}

// waitParked waits until want goroutines have reached the bottom of parkDeep and the dump size is stable.
func waitParked(base, want int64) int {
	for i := 0; i < 2000 && parkedCount.Load()-base < want; i++ {
		time.Sleep(5 * time.Millisecond)
	}
	last := -1
	for i := 0; i < 50; i++ {
		n := len(captureAll())
		if n == last {
			return n
		}
		last = n
		time.Sleep(10 * time.Millisecond)
	}
	return last
}

// webCutRounds: the handler with maxmem below the size of the dump parses a
// dump truncated at an arbitrary byte: it must answer 200 or 500, never crash.
func webCutRounds(r *core.Run, rounds int) {
	for k := 0; k < rounds; k++ {
		rr := core.NewRand(r.Seed, 1010, uint64(k))
		ch := make(chan struct{})
		var wg sync.WaitGroup
		n := 2500 + rr.Intn(1500)
		base := parkedCount.Load()
		for i := 0; i < n; i++ {
			wg.Add(1)
			go func(d int) { defer wg.Done(); parkDeep(d, ch, 0xc000000000, 7) }(5 + rr.Intn(25))
		}
		waitParked(base, int64(n))
		func() {
			defer func() {
				if p := recover(); p != nil {
					r.Violation("web-cut-panic", "handler panicked on a dump truncated at maxmem", "webcut", map[string]any{"goroutines": n})
				}
			}()
			for _, q := range []string{"maxmem=1048576&augment=0", "maxmem=1&augment=0", "maxmem=1500000&augment=0&similarity=anyvalue"} {
				code, body, verdict, st := callHandler("/debug?"+q, 3*time.Minute)
				r.Eval(1)
				r.Count("web_cut_requests", 1)
				switch {
				case verdict == "blocked":
					r.Violation("web-cut-handler-blocked", "the handler does not answer: a handler goroutine is parked inside the library:\n"+st, "webcut", map[string]any{"query": q, "goroutines": n})
					return
				case verdict == "slow":
					r.Inconclusive("web cut: the handler watchdog fired while the handler was still running")
					return
				case code == 599:
					panic(body)
				}
				if code != http.StatusOK && code != http.StatusInternalServerError {
					r.Violation("web-cut-status", "handler answered "+http.StatusText(code)+" for a truncated dump", "webcut", map[string]any{"query": q, "goroutines": n})
				}
				r.Mark("web_cut_status", http.StatusText(code))
			}
		}()
		close(ch)
		wg.Wait()
	}
}
