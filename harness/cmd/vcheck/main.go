// Command vcheck runs the check of one property against the panicparse tree
// it was built against (see /verif/check).
package main

import (
	"encoding/json"
	"fmt"
	"io"
	"log"
	"os"
	"runtime"
	"runtime/debug"
	"sort"
	"time"

	"verifharness/core"
)

type check struct {
	level  string
	run    func(r *core.Run)
	replay func(r *core.Run, kind string, raw json.RawMessage)
}

var checks = map[string]check{}

// workers is the size of the in-process pool.
func workers() int {
	n := runtime.NumCPU()
	if n > 16 {
		n = 16
	}
	return n
}

func main() {
	if len(os.Args) < 3 {
		var ids []string
		for id := range checks {
			ids = append(ids, id)
		}
		sort.Strings(ids)
		fmt.Fprintf(os.Stderr, "usage: vcheck <ID> <quick|thorough> | vcheck <ID> --replay <file>\nproperties: %v\n", ids)
		os.Exit(2)
	}
	debug.SetGCPercent(400)
	log.SetOutput(io.Discard) // panicparse logs "problematic ... URL" lines
	id := os.Args[1]
	if id == "worker" {
		workerMain(os.Args[2:])
		return
	}
	if id == "c14cold" {
		c14ColdChild(os.Args[2])
		return
	}
	// A check that does not end is neither a pass nor a finding: a generous watchdog turns it into an explicit
	// INCONCLUSIVE with the goroutine dump of the harness (exit status 2). No verdict depends on it.
	limit := 40 * time.Minute
	if len(os.Args) > 2 && os.Args[2] == "thorough" {
		limit = 4 * time.Hour
	}
	time.AfterFunc(limit, func() {
		buf := make([]byte, 8<<20)
		buf = buf[:runtime.Stack(buf, true)]
		fmt.Printf("INCONCLUSIVE property=%s the check did not end within %v (process watchdog); goroutines of the harness follow on stderr\n", id, limit)
		os.Stderr.Write(buf)
		os.Exit(2)
	})
	c, ok := checks[id]
	if !ok {
		fmt.Printf("BROKEN-CHECK property=%s no such check\n", id)
		os.Exit(2)
	}
	if os.Args[2] == "--replay" {
		if len(os.Args) < 4 {
			fmt.Fprintln(os.Stderr, "missing replay file")
			os.Exit(2)
		}
		b, err := os.ReadFile(os.Args[3])
		if err != nil {
			fmt.Fprintln(os.Stderr, err)
			os.Exit(2)
		}
		var rp core.Replay
		if err := json.Unmarshal(b, &rp); err != nil {
			fmt.Fprintln(os.Stderr, err)
			os.Exit(2)
		}
		r := core.NewRun(id, "replay", c.level)
		r.ReplayMode = true
		if c.replay == nil {
			fmt.Printf("BROKEN-CHECK property=%s has no replayer\n", id)
			os.Exit(2)
		}
		c.replay(r, rp.Kind, rp.Case)
		if r.Violations() > 0 {
			fmt.Printf("REPLAY property=%s reproduced\n", id)
			os.Exit(1)
		}
		fmt.Printf("REPLAY property=%s not reproduced\n", id)
		os.Exit(0)
	}
	tier := os.Args[2]
	if tier != "quick" && tier != "thorough" {
		fmt.Fprintln(os.Stderr, "tier must be quick or thorough")
		os.Exit(2)
	}
	r := core.NewRun(id, tier, c.level)
	c.run(r)
	r.Finish()
}

// workerMain is the child-batch entry; set by checks that need it.
var workerMain = func(args []string) { os.Exit(2) }
