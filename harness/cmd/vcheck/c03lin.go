package main

// Linear work, decided with a deterministic proxy: bytes allocated
// (runtime.MemStats.TotalAlloc) by scanning inputs of size n, 2n, 4n, 8n.

import (
	"bytes"
	"encoding/json"
	"fmt"
	"io"
	"os"
	"os/exec"
	"runtime"
	"strings"

	"github.com/maruel/panicparse/v2/stack"

	"verifharness/core"
)

type linFamily struct {
	Name  string
	Build func(n int) []byte
}

func hdr(id int) string { return fmt.Sprintf("goroutine %d [running]:\n", id) }

var linFamilies = []linFamily{
	{"long-junk-line", func(n int) []byte {
		return []byte(strings.Repeat("x", n) + "\n" + hdr(1) + "main.main()\n\t/tmp/main.go:1 +0x1\n")
	}},
	{"long-state", func(n int) []byte {
		return []byte("goroutine 1 [" + strings.Repeat("s", n) + "]:\nmain.main()\n\t/tmp/main.go:1 +0x1\n")
	}},
	{"long-symbol", func(n int) []byte {
		return []byte(hdr(1) + "main." + strings.Repeat("F", n) + "()\n\t/tmp/main.go:1 +0x1\n")
	}},
	{"long-argument-list", func(n int) []byte {
		return []byte(hdr(1) + "main.f(" + strings.TrimSuffix(strings.Repeat("0xc000012345, ", n/14), ", ") + ")\n\t/tmp/main.go:1 +0x1\n")
	}},
	{"many-aggregates", func(n int) []byte {
		return []byte(hdr(1) + "main.f(" + strings.TrimSuffix(strings.Repeat("{0x1, {0x2}}, ", n/14), ", ") + ")\n\t/tmp/main.go:1 +0x1\n")
	}},
	{"long-path", func(n int) []byte {
		return []byte(hdr(1) + "main.f()\n\t/tmp/" + strings.Repeat("p", n) + "/main.go:1 +0x1\n")
	}},
	{"deep-path", func(n int) []byte {
		return []byte(hdr(1) + "main.f()\n\t/tmp/" + strings.Repeat("a/", n/2) + "main.go:1 +0x1\n")
	}},
	{"many-goroutines", func(n int) []byte {
		var b bytes.Buffer
		for i := 0; i < n/64; i++ {
			fmt.Fprintf(&b, "goroutine %d [select]:\nmain.f%d(0x%x)\n\t/tmp/main.go:%d +0x1\n\n", i+1, i, 0xc000000000+i*8, i+1)
		}
		return b.Bytes()
	}},
	{"many-frames", func(n int) []byte {
		var b bytes.Buffer
		b.WriteString(hdr(1))
		for i := 0; i < n/40; i++ {
			fmt.Fprintf(&b, "main.f%d(0x%x)\n\t/tmp/main.go:%d +0x1\n", i, i, i+1)
		}
		return b.Bytes()
	}},
	{"many-distinct-pointers", func(n int) []byte {
		var b bytes.Buffer
		for g := 0; g < 2; g++ {
			fmt.Fprintf(&b, "goroutine %d [select]:\n", g+1)
			for i := 0; i < n/80; i++ {
				fmt.Fprintf(&b, "main.f(0x%x, 0x%x)\n\t/tmp/main.go:1 +0x1\n", 0xc000000000+i*8, 0xc100000000+i*16)
			}
			b.WriteString("\n")
		}
		return b.Bytes()
	}},
	{"many-dumps", func(n int) []byte {
		var b bytes.Buffer
		for i := 0; i < n/70; i++ {
			fmt.Fprintf(&b, "goroutine %d [select]:\nmain.f(0x%x)\n\t/tmp/main.go:1 +0x1\njunk between dumps\n", i+1, i)
		}
		return b.Bytes()
	}},
	{"many-separators", func(n int) []byte {
		return []byte(strings.Repeat("==================\n", n/19))
	}},
}

type linResult struct {
	Family string   `json:"family"`
	Guess  bool     `json:"guess_paths"`
	Sizes  []int    `json:"sizes"`
	Alloc  []uint64 `json:"alloc_bytes"`
}

func measureAlloc(in []byte, opts *stack.Opts) uint64 {
	var m0, m1 runtime.MemStats
	runtime.GC()
	runtime.ReadMemStats(&m0)
	var rd io.Reader = bytes.NewReader(in)
	for k := 0; k < 1<<20; k++ {
		_, suffix, err := stack.ScanSnapshot(rd, io.Discard, opts)
		if err != nil {
			break
		}
		rd = io.MultiReader(bytes.NewReader(suffix), rd)
	}
	runtime.ReadMemStats(&m1)
	return m1.TotalAlloc - m0.TotalAlloc
}

func c03LinearChild(args []string) {
	runtime.GOMAXPROCS(1)
	var out []linResult
	for _, guess := range []bool{false, true} {
		for _, f := range linFamilies {
			n0 := 65536
			opts := &stack.Opts{NameArguments: true}
			if guess {
				if f.Name != "long-path" && f.Name != "deep-path" && f.Name != "many-frames" {
					continue
				}
				n0 = 1000
				opts = stack.DefaultOpts()
				opts.AnalyzeSources = false
			}
			res := linResult{Family: f.Name, Guess: guess}
			for k := 0; k < 4; k++ {
				n := n0 << uint(k)
				in := f.Build(n)
				measureAlloc(in, opts) // warm up (regexp caches, lazy init)
				res.Sizes = append(res.Sizes, len(in))
				res.Alloc = append(res.Alloc, measureAlloc(in, opts))
			}
			out = append(out, res)
		}
	}
	b, _ := json.Marshal(out)
	fmt.Println(string(b))
}

func c03Linear(r *core.Run) {
	cmd := exec.Command(os.Args[0], "worker", "c03lin")
	cmd.Env = os.Environ()
	var so, se bytes.Buffer
	cmd.Stdout, cmd.Stderr = &so, &se
	if err := cmd.Run(); err != nil {
		r.Violation("linear-child-died", fmt.Sprintf("scaling-family child died: %v %s", err, core.Trunc(se.String(), 800)), "lin", nil)
		return
	}
	var res []linResult
	if err := json.Unmarshal(bytes.TrimSpace(so.Bytes()), &res); err != nil {
		r.Broken("cannot read scaling results: " + err.Error())
		return
	}
	var table []map[string]any
	for _, f := range res {
		r.Eval(len(f.Sizes))
		var ratios []float64
		for k := 1; k < len(f.Alloc); k++ {
			ra := float64(f.Alloc[k]) / float64(f.Alloc[k-1]+1)
			rs := float64(f.Sizes[k]) / float64(f.Sizes[k-1])
			ratios = append(ratios, ra/rs)
		}
		// Over three doublings allocation may grow at most 3x faster than the
		// input (buffer growth by doubling makes linear code look like a step
		// function; quadratic code grows 8x faster).
		last := len(f.Alloc) - 1
		worst := (float64(f.Alloc[last]) / float64(f.Alloc[0]+1)) / (float64(f.Sizes[last]) / float64(f.Sizes[0]))
		table = append(table, map[string]any{"family": f.Family, "guess_paths": f.Guess, "sizes": f.Sizes, "alloc_bytes": f.Alloc, "growth_over_input_growth": ratios})
		if worst > 3 {
			key := "superlinear:" + f.Family
			if f.Guess && (f.Family == "long-path" || f.Family == "deep-path") {
				// known class only if the same family is linear without path guessing
				lin := true
				for _, g := range res {
					if g.Family == f.Family && !g.Guess {
						l := len(g.Alloc) - 1
						if (float64(g.Alloc[l])/float64(g.Alloc[0]+1))/(float64(g.Sizes[l])/float64(g.Sizes[0])) > 3 {
							lin = false
						}
					}
				}
				if lin {
					key = "superlinear-root-guessing"
				}
			}
			r.Violation(key, fmt.Sprintf("family %s (GuessPaths=%v): allocation grows %.2fx faster than the input over three doublings: sizes %v alloc %v", f.Family, f.Guess, worst, f.Sizes, f.Alloc), "lin", map[string]any{"family": f.Family, "guess": f.Guess})
		}
	}
	r.Set("scaling_families", table)
}
