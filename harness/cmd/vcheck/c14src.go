package main

import (
	"bytes"
	"fmt"
	"io"
	"os"
	"path/filepath"
	"strings"
	"sync"
	"sync/atomic"

	"github.com/maruel/panicparse/v2/stack"
	"github.com/maruel/panicparse/v2/verifhook"

	"verifharness/core"
	"verifharness/mon"
)

// Phase (c) of C14: concurrent scans with path guessing and source analysis on, over source files that no
// scan of this process has seen yet. Every round writes fresh files, starts W scans at the same time on one
// shared options value, and compares each with the same scan run alone afterwards.

func c14Sources(rr *core.Rand) (mainSrc, utilSrc []byte) {
	var b bytes.Buffer
	b.WriteString("package main\n\nfunc main() { spawn() }\n\nfunc work(id int, name string, p *int) {\n\tleaf(id, []byte(name))\n}\n\nfunc leaf(id int, b []byte) {\n\tpanic(\"boom\")\n}\n\nfunc spawn() {\n\tgo work(1, \"ab\", nil)\n}\n\nfunc big(a, b, c, d, e, f, g, h, i, j, k int) {\n\tleaf(a, nil)\n}\n")
	n := 100 + rr.Intn(2500)
	for i := 0; i < n; i++ {
		fmt.Fprintf(&b, "\nfunc filler%d(a, b int, s string) (int, string) {\n\tif a > b {\n\t\treturn a - b, s + \"x\"\n\t}\n\treturn b - a, s\n}\n", i)
	}
	var u bytes.Buffer
	u.WriteString("package main\n\nfunc helper(f float64, ok bool) {\n\twork(1, \"x\", nil)\n}\n")
	for i := 0; i < n/3; i++ {
		fmt.Fprintf(&u, "\nfunc ufiller%d(m map[string]int, c chan int) int {\n\treturn len(m) + cap(c)\n}\n", i)
	}
	return b.Bytes(), u.Bytes()
}

func c14SrcDump(rr *core.Rand, dir string) []byte {
	var b strings.Builder
	b.WriteString("panic: boom\n\n")
	ng := 1 + rr.Intn(10)
	for k := 0; k < ng; k++ {
		st := "chan receive"
		if k == 0 {
			st = "running"
		}
		fmt.Fprintf(&b, "goroutine %d [%s]:\n", k+1, st)
		id := 1 + rr.Intn(3)
		fmt.Fprintf(&b, "main.leaf(0x%x, {0xc0000a%04x, 0x2, 0x8})\n\t%s/main.go:10 +0x1d\n", id, rr.Intn(4)*16, dir)
		fmt.Fprintf(&b, "main.work(0x%x, {0x4b6f2a, 0x2}, 0xc00001%04x)\n\t%s/main.go:6 +0x45\n", id, rr.Intn(4)*8, dir)
		if rr.Bool() {
			fmt.Fprintf(&b, "main.helper(0x3ff8000000000000, 0x1)\n\t%s/util.go:4 +0x33\n", dir)
		}
		if rr.Bool() {
			// more words than the runtime prints: the argument list ends with the elision marker
			fmt.Fprintf(&b, "main.big(0x1, 0x2, 0x3, 0x4, 0x5, 0x6, 0x7, 0x8, 0x9, 0xa, ...)\n\t%s/main.go:18 +0x51\n", dir)
		}
		fmt.Fprintf(&b, "created by main.spawn\n\t%s/main.go:14 +0x2b\n\n", dir)
	}
	b.WriteString("exit status 2\n")
	return []byte(b.String())
}

func c14SourcePhase(r *core.Run) {
	root := filepath.Join(os.Getenv("VERIF_WORK"), "c14src")
	defer os.RemoveAll(root)
	rounds := r.N(16, 160)
	shared := stack.DefaultOpts()
	// two GOPATHs; every third round has its sources in the second one (found through a remote root with another name)
	gpA, gpB := filepath.ToSlash(filepath.Join(root, "gpA")), filepath.ToSlash(filepath.Join(root, "gpB"))
	_ = os.MkdirAll(gpA+"/src/unrelated", 0o755)
	_ = os.MkdirAll(gpB+"/src", 0o755)
	shared.LocalGOPATHs = []string{gpA, gpB}
	sharedBefore := *shared
	sharedBefore.LocalGOPATHs = append([]string{}, shared.LocalGOPATHs...)
	augmented, compared := 0, 0
	for round := 0; round < rounds; round++ {
		rr := core.NewRand(r.Seed, 143, uint64(round))
		dir := filepath.ToSlash(filepath.Join(root, fmt.Sprintf("r%d", round), "app"))
		remoteDir := dir
		inGOPATH := round%3 == 1
		if inGOPATH {
			dir = fmt.Sprintf("%s/src/c14app_r%d", gpB, round)
			remoteDir = fmt.Sprintf("/remote/build/gopath/src/c14app_r%d", round)
		}
		if err := os.MkdirAll(dir, 0o755); err != nil {
			r.Broken(err.Error())
			return
		}
		m, u := c14Sources(rr)
		_ = os.WriteFile(dir+"/main.go", m, 0o644)
		_ = os.WriteFile(dir+"/util.go", u, 0o644)
		if round%2 == 0 && !inGOPATH {
			_ = os.WriteFile(dir+"/go.mod", []byte("module example.com/c14app\n\ngo 1.20\n"), 0o644)
		}
		inputs := make([][]byte, 1+rr.Intn(3))
		for i := range inputs {
			inputs[i] = c14SrcDump(rr, remoteDir)
		}
		w := 4 + rr.Intn(13)
		got := make([]*stack.Snapshot, w)
		start := make(chan struct{})
		var wg sync.WaitGroup
		for k := 0; k < w; k++ {
			wg.Add(1)
			go func(k int) {
				defer wg.Done()
				<-start
				got[k], _, _, _ = scanAll(inputs[k%len(inputs)], shared)
			}(k)
		}
		close(start)
		wg.Wait()
		r.Eval(w)
		for i, in := range inputs {
			want, _, _, _ := scanAll(in, shared)
			if want == nil {
				r.Broken("the source-analysis dump did not parse")
				return
			}
			for _, g := range want.Goroutines {
				for ci := range g.Stack.Calls {
					if len(g.Stack.Calls[ci].Args.Processed) != 0 {
						augmented++
					}
				}
			}
			// the snapshot of the scan run alone is then shared: W goroutines print it the way pp does (goroutine by
			// goroutine and aggregated) at the same time; each output must be the one printed alone
			var t0, t1 bytes.Buffer
			_ = verifhook.WriteGoroutines(&t0, false, want, 2, nil, nil)
			_ = verifhook.WriteBuckets(&t1, false, want.Aggregate(stack.AnyPointer), 2, nil, nil)
			var tw sync.WaitGroup
			var tbad atomic.Int32
			for k := 0; k < 6; k++ {
				tw.Add(1)
				go func(k int) {
					defer tw.Done()
					var b bytes.Buffer
					if k%2 == 0 {
						_ = verifhook.WriteGoroutines(&b, false, want, 2, nil, nil)
						if !bytes.Equal(b.Bytes(), t0.Bytes()) {
							tbad.Add(1)
						}
					} else {
						_ = verifhook.WriteBuckets(&b, false, want.Aggregate(stack.AnyPointer), 2, nil, nil)
						if !bytes.Equal(b.Bytes(), t1.Bytes()) {
							tbad.Add(1)
						}
					}
				}(k)
			}
			tw.Wait()
			r.Eval(6)
			// HTML renderings of the shared snapshot at the same time as well, then the snapshot is compared with a
			// fresh scan of the same bytes: rendering leaves every field of the snapshot alone, the detected roots
			// and modules (a "go run" directory is a pseudo module) included
			var hw sync.WaitGroup
			for k := 0; k < 4; k++ {
				hw.Add(1)
				go func(k int) {
					defer hw.Done()
					if k%2 == 0 {
						_ = want.ToHTML(io.Discard, "")
					} else {
						_ = want.Aggregate(stack.AnyValue).ToHTML(io.Discard, "")
					}
				}(k)
			}
			hw.Wait()
			r.Eval(4)
			if fresh, _, _, _ := scanAll(in, shared); fresh != nil {
				if d := mon.DiffSnapshot(fresh, want, mon.EqOpt{}); d != "" {
					r.Violation("snapshot-mutated-by-rendering", fmt.Sprintf("round %d: after console and HTML renderings the snapshot differs from a fresh scan of the same bytes: %s", round, d), "conc", map[string]any{"round": round, "input": string(in)})
					return
				}
				if len(fresh.LocalGomods) != 0 {
					r.Count("source_phase_snapshots_with_local_modules", 1)
				}
			}
			if tbad.Load() != 0 {
				r.Violation("concurrent-console-rendering", fmt.Sprintf("round %d: concurrent console renderings of one shared snapshot (typed arguments present) differ from the rendering done alone", round), "conc", map[string]any{"round": round, "input": string(in)})
				return
			}
			for k := i; k < w; k += len(inputs) {
				compared++
				if d := mon.DiffSnapshot(want, got[k], mon.EqOpt{}); d != "" {
					r.Violation("concurrent-scan-with-sources", fmt.Sprintf("round %d: one of %d concurrent scans (path guessing and source analysis on, shared options, source files not seen before) differs from the same scan run alone: %s", round, w, d),
						"conc", map[string]any{"round": round, "workers": w, "input": string(in)})
					return
				}
			}
		}
		r.DistinctN(len(inputs))
		_ = os.RemoveAll(filepath.Join(root, fmt.Sprintf("r%d", round)))
		if inGOPATH {
			_ = os.RemoveAll(dir)
			r.Count("source_phase_rounds_in_second_gopath", 1)
		}
		if fmt.Sprint(*shared) != fmt.Sprint(sharedBefore) {
			r.Violation("options-modified", fmt.Sprintf("the options value shared by the scans was modified by them: %v, was %v", *shared, sharedBefore), "conc", map[string]any{"round": round})
			return
		}
	}
	r.Set("source_phase_rounds", rounds)
	r.Set("source_phase_concurrent_scans_compared", compared)
	r.Set("source_phase_frames_with_typed_args", augmented)
	if augmented == 0 {
		r.Broken("source analysis never produced typed arguments in the source phase: the phase observed nothing")
	}
}
