package main

import (
	"fmt"
	"io"
	"os"
	"runtime/debug"
	"strings"

	"github.com/maruel/panicparse/v2/stack"

	"verifharness/core"
	"verifharness/sched"
)

// c10Sources: the real traceback of a generated program whose sources are on disk, cut at EVERY byte offset x 3
// ways of signalling the cut, scanned with path guessing, source analysis on (the default options but for naming, and
// what the web handler does with a dump cut at maxmem): the post-processing steps meet frames whose file or line
// was cut short (".../main.go:2" for ".../main.go:27").
func c10Sources(r *core.Run) {
	np := r.N(2, 12)
	for k := 0; k < np; k++ {
		// a long chain: frames on lines 100..400 of a file whose functions start at line 11, so that a line number
		// cut after its first or second digit names a line of another function
		c := &c19Case{Seed: r.Seed, Idx: 9100 + 2*k, Toolchain: "go", Funcs: 70 + 10*(k%3)}
		bp, err := buildAndCrash(c)
		if err != nil {
			r.Broken(err.Error())
			return
		}
		// naming off: pointer pseudo-names depend on which pointers recur in what was read, the property sets them aside
		opts := c19Opts(bp.goroot, true, false)
		full, _, _, _ := scanAll(bp.trace, opts)
		if full == nil || len(full.Goroutines) == 0 {
			r.Broken("real traceback of a generated program not parsed")
			return
		}
		want := full.Goroutines[0].Stack.Calls
		typed := 0
		for i := range want {
			if len(want[i].Args.Processed) != 0 {
				typed++
			}
		}
		if typed == 0 {
			r.Broken("source analysis produced no typed arguments for the uncut traceback")
			return
		}
		core.Parallel(len(bp.trace)+1, workers(), func(cut int) {
			for mode := 0; mode < 3; mode++ {
				src := &sched.Scripted{Data: bp.trace[:cut]}
				switch mode {
				case 1:
					src.Final = sched.ErrInjected
				case 2:
					src.Final = sched.ErrInjected
					src.FinalWithData = true
				}
				var s *stack.Snapshot
				var err error
				var st string
				func() {
					defer func() {
						if p := recover(); p != nil {
							st = fmt.Sprintf("%v\n%s", p, debug.Stack())
						}
					}()
					s, _, err = stack.ScanSnapshot(src, io.Discard, opts)
				}()
				r.Eval(1)
				report := func(key, what string) {
					r.Violation(key, fmt.Sprintf("real traceback with sources present, cut at byte %d (%s): %s", cut, cutModes[mode], what), "srccut", map[string]any{"trace": string(bp.trace), "cut": cut, "mode": mode, "tail": string(bp.trace[maxI(0, cut-80):cut])})
				}
				if st != "" {
					report("src-cut-panic", "ScanSnapshot panicked: "+core.Trunc(st, 1200))
					return
				}
				if mode != 0 && s == nil && err != sched.ErrInjected && cut < len(bp.trace) {
					// without a snapshot the reader's failure is the only thing to report
					report("src-cut-error", fmt.Sprintf("reader failure reported as %v", err))
					return
				}
				if s == nil || len(s.Goroutines) == 0 {
					continue
				}
				got := s.Goroutines[0].Stack.Calls
				// every frame but the last one parsed lay entirely before the cut
				for i := 0; i+1 < len(got) && i < len(want); i++ {
					g, w := &got[i], &want[i]
					if g.Func.Complete != w.Func.Complete || g.RemoteSrcPath != w.RemoteSrcPath || g.Line != w.Line || g.LocalSrcPath != w.LocalSrcPath ||
						strings.Join(g.Args.Processed, "\x00") != strings.Join(w.Args.Processed, "\x00") {
						report("src-cut-frame", fmt.Sprintf("frame %d lay entirely before the cut but differs from the uncut parse: %s %s:%d (%s) vs %s %s:%d (%s)", i,
							g.Func.Complete, g.RemoteSrcPath, g.Line, strings.Join(g.Args.Processed, ", "), w.Func.Complete, w.RemoteSrcPath, w.Line, strings.Join(w.Args.Processed, ", ")))
						return
					}
				}
			}
		})
		r.Count("source_cut_offsets", len(bp.trace)+1)
		r.Count("source_cut_programs", 1)
		r.DistinctN(3 * len(bp.trace))
		_ = os.RemoveAll(bp.dir)
	}
}

func maxI(a, b int) int {
	if a > b {
		return a
	}
	return b
}
