package main

import (
	"bytes"
	"encoding/json"
	"fmt"
	"io"
	"os"
	"path/filepath"
	"strings"

	"github.com/maruel/panicparse/v2/stack"

	"verifharness/core"
	"verifharness/gen"
)

func init() {
	checks["C18"] = check{level: "exploration", run: runC18, replay: replayC18}
}

type c18Case struct {
	Seed   int64         `json:"seed"`
	Idx    int           `json:"idx"`
	Layout *gen.FSLayout `json:"layout,omitempty"`
	Dump   *gen.Dump     `json:"dump,omitempty"`
}

func fsDir(tag string, i int) string {
	d := filepath.Join(os.Getenv("VERIF_WORK"), fmt.Sprintf("fs-%s-%d", tag, i))
	_ = os.RemoveAll(d)
	_ = os.MkdirAll(d, 0o755)
	return d
}

func c18Gen(seed int64, i int, dir string) (*gen.FSLayout, *gen.Dump) {
	rr := core.NewRand(seed, 18, uint64(i))
	// every fourth layout has a module nested in another one: which modules get detected depends on the
	// order of the files, but a frame must always be explained by the longest detected root that contains it
	l := gen.GenFS(rr, dir, &gen.FSCfg{Decoys: true, MissingSome: i%3 == 0, Nested: i%4 == 1, Hostile: i%5 == 2})
	return l, l.DumpFor(rr)
}

func c18Eval(r *core.Run, c *c18Case) {
	dir := fsDir("c18", c.Idx)
	defer os.RemoveAll(dir)
	l, d := c18Gen(c.Seed, c.Idx, dir)
	c.Layout, c.Dump = l, d
	opts := &stack.Opts{LocalGOROOT: l.LocalGOROOT, LocalGOPATHs: l.LocalGOPATHs, GuessPaths: true, NameArguments: true}
	report := func(key, what string) { r.Violation(key, what, "fs", c) }
	var s *stack.Snapshot
	var perr any
	func() {
		defer func() { perr = recover() }()
		in := d.Render()
		if c.Idx%7 == 5 {
			// the dump is followed by a goroutine whose frame is malformed: the snapshot is handed out together with a
			// parse error, and is to be resolved like any other
			in = append(bytes.TrimRight(in, "\n"), []byte("\n\ngoroutine 99999 [running]:\nmain.broken(0x1)\nthis is not a file line\n")...)
		}
		var err error
		s, _, _, err = scanAll(in, opts)
		if err != nil && err != io.EOF {
			r.Count("snapshots_returned_with_an_error", 1)
		}
	}()
	r.Eval(1)
	if perr != nil {
		report("panic", fmt.Sprintf("panic with path guessing on: %v", perr))
		return
	}
	if s == nil {
		report("nosnapshot", "no snapshot")
		return
	}
	byRemote := map[string]*gen.FSFrame{}
	for i := range l.Frames {
		byRemote[l.Frames[i].Remote] = &l.Frames[i]
	}
	// detected roots must be the generator's roots
	anyStd := false
	for _, f := range l.Frames {
		if f.Class == gen.FSStdlib && f.Exists && !f.TestMain {
			anyStd = true
		}
	}
	wantRoot := ""
	if anyStd {
		wantRoot = l.RemoteGOROOT
	}
	if s.RemoteGOROOT != wantRoot {
		report("remote-goroot", fmt.Sprintf("RemoteGOROOT=%q want %q", s.RemoteGOROOT, wantRoot))
		return
	}
	for rem, loc := range s.RemoteGOPATHs {
		if l.RemoteGOPATH[rem] != loc {
			report("remote-gopath", fmt.Sprintf("detected remote GOPATH %q -> %q, the layout has %v", rem, loc, l.RemoteGOPATH))
			return
		}
	}
	for rem, loc := range l.RemoteGOPATH {
		if s.RemoteGOPATHs[rem] != loc {
			report("remote-gopath-missed", fmt.Sprintf("remote GOPATH %q -> %q not detected (got %v)", rem, loc, s.RemoteGOPATHs))
			return
		}
	}
	for md, imp := range s.LocalGomods {
		if l.Mods[md] != imp {
			report("gomod", fmt.Sprintf("detected module %q = %q, the layout has %v", md, imp, l.Mods))
			return
		}
	}
	nested := c.Idx%4 == 1
	for md, imp := range l.Mods {
		if s.LocalGomods[md] != imp {
			if nested {
				// a nested module may stay undetected when a file of the enclosing module is looked at first
				outer := false
				for o := range s.LocalGomods {
					if strings.HasPrefix(md, o+"/") {
						outer = true
					}
				}
				if outer {
					continue
				}
			}
			report("gomod-missed", fmt.Sprintf("module %q = %q not detected (got %v)", md, imp, s.LocalGomods))
			return
		}
	}
	for _, g := range s.Goroutines {
		calls := make([]*stack.Call, 0, len(g.Stack.Calls)+1)
		for ci := range g.Stack.Calls {
			calls = append(calls, &g.Stack.Calls[ci])
		}
		for ci := range g.CreatedBy.Calls {
			calls = append(calls, &g.CreatedBy.Calls[ci])
		}
		for _, cl := range calls {
			f := byRemote[cl.RemoteSrcPath]
			if f == nil {
				continue
			}
			if f.Hostile {
				// a root plus a remainder outside its source trees: only the general laws below apply
				r.Count("hostile_frames_seen", 1)
				if cl.LocalSrcPath != "" && !strings.HasSuffix(cl.LocalSrcPath, cl.RelSrcPath) {
					report("local-not-ending-with-rel", fmt.Sprintf("%s: LocalSrcPath %q does not end with RelSrcPath %q", cl.RemoteSrcPath, cl.LocalSrcPath, cl.RelSrcPath))
					return
				}
				continue
			}
			r.Mark("classes_seen", fmt.Sprintf("class=%d exists=%v decoy=%v", f.Class, f.Exists, f.Decoy))
			if cl.LocalSrcPath != "" && !strings.HasSuffix(cl.LocalSrcPath, cl.RelSrcPath) {
				report("local-not-ending-with-rel", fmt.Sprintf("%s: LocalSrcPath %q does not end with RelSrcPath %q", cl.RemoteSrcPath, cl.LocalSrcPath, cl.RelSrcPath))
				return
			}
			if f.Class == gen.FSUnknown {
				if cl.LocalSrcPath != "" || cl.RelSrcPath != "" || cl.Location != stack.LocationUnknown {
					key := "unknown-frame-resolved"
					if f.Decoy {
						key = "decoy-resolved"
					}
					report(key, fmt.Sprintf("frame %s lies under no root but got local=%q rel=%q class=%v", cl.RemoteSrcPath, cl.LocalSrcPath, cl.RelSrcPath, cl.Location))
					return
				}
				continue
			}
			if f.TestMain {
				if cl.Location != stack.Stdlib {
					report("testmain", fmt.Sprintf("_test/_testmain.go classified %v", cl.Location))
					return
				}
				if f.Exists && cl.LocalSrcPath != f.Local {
					report("testmain-local", fmt.Sprintf("%s exists locally as %s but LocalSrcPath=%q", cl.RemoteSrcPath, f.Local, cl.LocalSrcPath))
					return
				}
				continue
			}
			if nested && f.Class == gen.FSGoMod {
				// oracle from the detected roots: the longest detected module root that contains the frame wins
				best := ""
				for md := range s.LocalGomods {
					if strings.HasPrefix(cl.RemoteSrcPath, md+"/") && len(md) > len(best) {
						best = md
					}
				}
				if best == "" {
					report("gomod-frame-unexplained", fmt.Sprintf("frame %s lies in no detected module %v", cl.RemoteSrcPath, s.LocalGomods))
					return
				}
				rel := cl.RemoteSrcPath[len(best)+1:]
				imp := s.LocalGomods[best]
				if i := strings.LastIndexByte(rel, '/'); i >= 0 {
					imp += "/" + rel[:i]
				}
				if cl.Location != stack.GoMod || cl.RelSrcPath != rel || cl.ImportPath != imp || cl.LocalSrcPath != cl.RemoteSrcPath {
					report("nested-module-priority", fmt.Sprintf("frame %s: rel=%q import=%q class=%v; the innermost detected module is %q (%q): want rel=%q import=%q", cl.RemoteSrcPath, cl.RelSrcPath, cl.ImportPath, cl.Location, best, s.LocalGomods[best], rel, imp))
					return
				}
				continue
			}
			if int(cl.Location) != int(f.Class) {
				report("class", fmt.Sprintf("frame %s: class %v want %d (exists=%v)", cl.RemoteSrcPath, cl.Location, f.Class, f.Exists))
				return
			}
			if cl.LocalSrcPath != f.Local || cl.RelSrcPath != f.Rel {
				report("mapping", fmt.Sprintf("frame %s: local=%q rel=%q want local=%q rel=%q", cl.RemoteSrcPath, cl.LocalSrcPath, cl.RelSrcPath, f.Local, f.Rel))
				return
			}
			if cl.ImportPath != f.Import {
				report("import-path", fmt.Sprintf("frame %s: ImportPath=%q want %q", cl.RemoteSrcPath, cl.ImportPath, f.Import))
				return
			}
			if f.Exists {
				if st, err := os.Stat(cl.LocalSrcPath); err != nil || st.IsDir() {
					report("local-file-absent", fmt.Sprintf("frame %s mapped to %q which is not a file", cl.RemoteSrcPath, cl.LocalSrcPath))
					return
				}
			}
			if !strings.HasPrefix(cl.RemoteSrcPath, f.Explains+"/") {
				report("root-not-prefix", fmt.Sprintf("root %q is not a prefix of %q", f.Explains, cl.RemoteSrcPath))
				return
			}
		}
	}
	c.Layout, c.Dump = nil, nil
}

func runC18(r *core.Run) {
	r.Rule("generated layouts on disk: 0..1 Go root, 0..3 disjoint GOPATHs (src trees and module caches), 0..2 go.mod modules at depth 1..4 with files at depth 0..2, a 'go run' file, files present/absent, remote roots renamed; " +
		"a dump referencing them plus frames under no root, decoys whose tail exists under a local root, and the go-test main; every frame's LocalSrcPath/RelSrcPath/ImportPath/Location and the detected roots are compared with the layout that generated them. " +
		"distinct by (seed, index); non-trivial = layout with >= 2 kinds of roots")
	r.Assume("relative paths are unique across roots by construction; nested modules / overlapping GOPATH roots are a matter of priority and are exercised in C06 only")
	n := r.N(6000, 120000)
	core.Parallel(n, workers(), func(i int) {
		c := &c18Case{Seed: r.Seed, Idx: i}
		c18Eval(r, c)
		r.Distinct(uint64(i) + 1)
		if i < 2 {
			dir := fsDir("c18s", i)
			l, d := c18Gen(r.Seed, i, dir)
			os.RemoveAll(dir)
			r.Sample(map[string]any{"roots": map[string]any{"goroot": l.RemoteGOROOT, "gopaths": l.RemoteGOPATH, "mods": l.Mods}, "dump": b2s(d.Render(), 900)})
		}
	})
}

func replayC18(r *core.Run, kind string, raw json.RawMessage) {
	var c c18Case
	if err := json.Unmarshal(raw, &c); err != nil {
		r.Broken(err.Error())
		return
	}
	c18Eval(r, &c)
}
