package main

import (
	"bytes"
	"encoding/json"
	"fmt"
	"os"
	"path/filepath"
	"strings"
	"sync/atomic"

	"verifharness/core"
	"verifharness/gen"
)

func init() {
	checks["C02"] = check{level: "exploration", run: runC02, replay: replayC02}
}

var cliFileSeq atomic.Int64

type cliStreamCase struct {
	Stream *gen.Stream `json:"stream"`
	Args   []string    `json:"args"`
	// UnsetTraceback: GOTRACEBACK unset (pp then prints its banner for single-goroutine dumps).
	UnsetTraceback bool `json:"unset_traceback,omitempty"`
	// FileArg: the input is passed as a file argument instead of stdin.
	FileArg bool `json:"file_arg,omitempty"`
	// HTML: pp -html <file>: the dumps go to the file, everything else to stdout as always.
	HTML bool `json:"html,omitempty"`
}

func (c *cliStreamCase) run(in []byte, args []string, tag string) ppResult {
	if !c.FileArg {
		return runPPEnv(in, c.UnsetTraceback, args...)
	}
	f := filepath.Join(os.Getenv("VERIF_WORK"), fmt.Sprintf("cli-%s-%d.txt", tag, cliFileSeq.Add(1)))
	_ = os.WriteFile(f, in, 0o644)
	defer os.Remove(f)
	return runPPEnv(nil, c.UnsetTraceback, append(append([]string{}, args...), f)...)
}

// cliStreamEval: pp's stdout on the stream must be the stream with each dump
// replaced by what the same binary prints for that dump alone.
func cliStreamEval(r *core.Run, c *cliStreamCase) {
	in := c.Stream.Render()
	args := append([]string{"-rebase=false"}, c.Args...)
	if c.HTML {
		hf := filepath.Join(os.Getenv("VERIF_WORK"), fmt.Sprintf("cli-html-%d.html", cliFileSeq.Add(1)))
		defer os.Remove(hf)
		args = append(args, "-html", hf)
	}
	res := c.run(in, args, "s")
	r.Eval(1)
	report := func(key, what string) { r.Violation(key, what, "clistream", c) }
	if res.TimedOut {
		r.Inconclusive("pp watchdog fired on a stream")
		return
	}
	if crashed(&res) {
		report("cli-crash", fmt.Sprintf("pp crashed: exit=%d stderr=%q", res.Exit, b2s(res.Stderr, 300)))
		return
	}
	if res.Exit != 0 {
		report("cli-exit", fmt.Sprintf("pp exits %d on a well-formed stream: %q", res.Exit, b2s(res.Stderr, 300)))
		return
	}
	var want bytes.Buffer
	for _, sg := range c.Stream.Segs {
		switch {
		case sg.Dump != nil, sg.Race != nil:
			var d []byte
			if sg.Dump != nil {
				d = sg.Dump.Render()
			} else {
				d = sg.Race.Render()
			}
			alone := c.run(d, args, "d")
			r.Count("pp_runs", 1)
			if alone.Exit != 0 || crashed(&alone) {
				report("cli-dump-alone", fmt.Sprintf("pp exits %d on a single well-formed dump: %q", alone.Exit, b2s(alone.Stderr, 300)))
				return
			}
			want.Write(alone.Stdout)
		default:
			want.WriteString(string(sg.Text))
		}
	}
	r.Count("pp_runs", 1)
	if !bytes.Equal(res.Stdout, want.Bytes()) {
		key := "cli-conservation"
		// known class: the stream ends with withheld race header lines.
		pt := c.Stream.PassThrough()
		for _, tail := range []string{"==================\n", "==================\r\n", "==================\nWARNING: DATA RACE", "==================\nWARNING: DATA RACE\n", "==================\r\nWARNING: DATA RACE", "==================\r\nWARNING: DATA RACE\r\n"} {
			if bytes.HasSuffix(pt, []byte(tail)) && bytes.Equal(append(append([]byte{}, res.Stdout...), tail...), want.Bytes()) {
				key = "eof-while-race-header-withheld"
			}
		}
		i := firstDiff(res.Stdout, want.Bytes())
		report(key, fmt.Sprintf("pp stdout is not the input with each dump replaced by its rendering: %d bytes, want %d; first difference at %d: got %q want %q", len(res.Stdout), want.Len(), i, b2s(tailFrom(res.Stdout, i), 120), b2s(tailFrom(want.Bytes(), i), 120)))
	}
}

func runC02(r *core.Run) {
	r.Rule("(a) generated streams T0 D1 T1 .. Dk Tk with every junk hazard (separator / WARNING lines, near-miss headers, binary, > 16 KiB lines, no final EOL, CRLF), goroutine dumps and race reports, under the resume protocol with per-call byte accounting P ++ X ++ S == consumed input and X == exactly the dump's span; " +
		"(b) every sequence of L line kinds from every scanner state (conservation clause only); (c) inputs without any dump reproduced identically; " +
		"(d) the pp binary (stdin or file argument, now and then with -html): stdout == stream with each dump replaced by pp(dump alone), exit 0. distinct by hash of the stream; non-trivial = stream with >= 1 dump and >= 1 non-empty text segment, or a dump-free stream with a separator/near-miss line")
	r.Assume("the three end-of-stream inputs pinned by RaceHdr2Err..4Err are generated a fixed 3 times (known finding)")
	n := r.N(8000, 300000)
	core.Parallel(n, workers(), func(i int) {
		c := genStreamCase(r, 2, i)
		streamEval(r, c, "conservation")
		if c.Stream.NumDumps() > 0 && len(c.Stream.PassThrough()) > 0 {
			r.Distinct(core.Hash64(c.Stream.Render()))
		}
		if i < 2 {
			r.Sample(map[string]any{"stream": b2s(c.Stream.Render(), 1200), "dumps": c.Stream.NumDumps()})
		}
	})
	// (c) dump-free streams, hostile junk only.
	m := r.N(4000, 100000)
	core.Parallel(m, workers(), func(i int) {
		rr := core.NewRand(r.Seed, 22, uint64(i))
		eol := "\n"
		if rr.Chance(1, 4) {
			eol = "\r\n"
		}
		t := gen.Junk(rr, &gen.JunkCfg{Separators: true, Long: i%7 == 0, Binary: true, MixedEOL: i%3 == 0}, 1+rr.Intn(12), eol)
		switch rr.Intn(4) {
		case 0:
			t = strings.TrimSuffix(strings.TrimSuffix(t, "\n"), "\r")
		case 1:
			// cut at an arbitrary byte: the last line ends anywhere, e.g. between CR and LF
			t = t[:rr.Intn(len(t)+1)]
		}
		c := &streamCase{Stream: &gen.Stream{Segs: []gen.Seg{{Text: gen.BinStr(t)}}}, Chunk: []int{0, 1, 7, 4096}[i%4], EOFWithData: i%3 == 1}
		c.Stream = gen.Normalize(c.Stream)
		streamEval(r, c, "conservation")
		r.Distinct(core.HashStr(t))
	})
	// The known-finding class, generated a fixed 3 times.
	for k := 1; k <= 3; k++ {
		rr := core.NewRand(r.Seed, 23, uint64(k))
		c := &streamCase{Stream: gen.GenStream(rr, &gen.StreamCfg{MaxDumps: 0, EndWithheld: k})}
		streamEval(r, c, "conservation")
	}
	seqEnumerate(r, r.N(3, 4), "conservation", r.N(2, 1))
	// (d) CLI.
	nc := r.N(120, 3000)
	core.Parallel(nc, workers(), func(i int) {
		rr := core.NewRand(r.Seed, 24, uint64(i))
		cfg := &gen.StreamCfg{MaxDumps: 3, RaceChance: 3, NoFinalEOLChance: 2,
			Junk:    gen.JunkCfg{Separators: true, Long: i%11 == 0, Binary: true},
			DumpCfg: gen.Cfg{MaxG: 4, MaxFrames: 5, MaxDepth: 3}}
		c := &cliStreamCase{Stream: gen.GenStream(rr, cfg)}
		if i%4 == 1 {
			alignStream(c.Stream, rr)
		}
		if i%3 == 1 {
			c.Args = []string{"-aggressive"}
		}
		c.UnsetTraceback = i%4 == 2
		c.FileArg = i%5 == 3
		c.HTML = i%7 == 4
		cliStreamEval(r, c)
		r.Distinct(core.Hash64(c.Stream.Render()))
	})
	c02RealCLI(r)
	for k := 1; k <= 3; k++ {
		rr := core.NewRand(r.Seed, 25, uint64(k))
		cliStreamEval(r, &cliStreamCase{Stream: gen.GenStream(rr, &gen.StreamCfg{MaxDumps: 0, EndWithheld: k})})
	}
}

// c02RealCLI: real crash output X of the repository's cmd/panic inside other text: pp(pre ++ X ++ post) must be
// pre ++ pp(X) ++ post (post starts with a line that cannot continue a dump), and the library must account for
// every byte (hook-based conservation, no generator knowledge of where the dump is).
func c02RealCLI(r *core.Run) {
	names := realCrashNames()
	r.Set("real_crash_scenarios", len(names))
	core.Parallel(len(names), workers(), func(k int) {
		x := realCrashes()[names[k]]
		pre := "2026/10/02 service starting\n"
		post := "exit status 2\n2026/10/02 restarting\n"
		if !bytes.HasSuffix(x, []byte("\n")) {
			return
		}
		in := append(append([]byte(pre), x...), post...)
		args := [][]string{{"-rebase=false"}, {}, {"-rebase=false", "-aggressive"}}[k%3]
		whole := runPP(in, nil, args...)
		alone := runPP(x, nil, args...)
		r.Eval(2)
		r.Count("pp_runs", 2)
		if whole.TimedOut || alone.TimedOut {
			r.Inconclusive("pp watchdog fired on real crash output")
			return
		}
		want := append(append([]byte(pre), alone.Stdout...), post...)
		if whole.Exit != 0 || alone.Exit != 0 || !bytes.Equal(whole.Stdout, want) {
			i := firstDiff(whole.Stdout, want)
			r.Violation("cli-real-conservation", fmt.Sprintf("cmd/panic %s: pp(pre ++ crash ++ post) != pre ++ pp(crash) ++ post (exit %d/%d), first difference at %d: %q vs %q", names[k], whole.Exit, alone.Exit, i, b2s(tailFrom(whole.Stdout, i), 120), b2s(tailFrom(want, i), 120)), "clireal", map[string]any{"name": names[k], "input": string(in)})
			return
		}
		// library: every input byte is forwarded, withheld as part of a dump (scan hook), or returned
		res := resumeAll(in, plainOpts(), nil, 0, true, 16)
		if res.Panic != nil || res.NoProgress {
			r.Violation("real-panic", fmt.Sprintf("cmd/panic %s: %v", names[k], res.Panic), "clireal", map[string]any{"name": names[k], "input": string(in)})
			return
		}
		var acc bytes.Buffer
		for ci := range res.Calls {
			c := &res.Calls[ci]
			if c.ConsErr != "" {
				r.Violation("real-conservation", fmt.Sprintf("cmd/panic %s call %d: %s", names[k], ci, c.ConsErr), "clireal", map[string]any{"name": names[k], "input": string(in)})
				return
			}
			if hw := hookWithheld(c); !bytes.Equal(hw, c.Withheld) {
				r.Violation("real-hook-accounting", fmt.Sprintf("cmd/panic %s call %d: %d bytes withheld, the scanner reports %d bytes consumed", names[k], ci, len(c.Withheld), len(hw)), "clireal", map[string]any{"name": names[k], "input": string(in)})
				return
			}
			acc.Write(c.Prefix)
			acc.Write(c.Withheld)
			if ci == len(res.Calls)-1 {
				acc.Write(c.Suffix)
			}
		}
		r.Distinct(core.Hash64(in))
	})
}

func replayC02(r *core.Run, kind string, raw json.RawMessage) {
	if kind == "clistream" {
		var c cliStreamCase
		if err := json.Unmarshal(raw, &c); err != nil {
			r.Broken(err.Error())
			return
		}
		cliStreamEval(r, &c)
		return
	}
	replaySeqOrStream(r, kind, raw, "conservation")
}
