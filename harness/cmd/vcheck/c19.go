package main

import (
	"bytes"
	"encoding/json"
	"fmt"
	"go/parser"
	"go/token"
	"io"
	"os"
	"os/exec"
	"path/filepath"
	"regexp"
	"strconv"
	"strings"

	"github.com/maruel/panicparse/v2/stack"

	"verifharness/core"
	"verifharness/gen"
	"verifharness/mon"
)

func init() {
	checks["C19"] = check{level: "exploration", run: runC19, replay: replayC19}
}

type c19Case struct {
	Seed      int64  `json:"seed"`
	Idx       int    `json:"idx"`
	Toolchain string `json:"toolchain"`
	Mismatch  string `json:"mismatch,omitempty"`
	// Naming: NameArguments on (the DefaultOpts combination).
	Naming bool `json:"naming,omitempty"`
	// Funcs: length of the call chain (0 = 15..30).
	Funcs int `json:"funcs,omitempty"`
	// Small: a short chain of plain functions whose every argument fits in 32 bits (no word of the whole traceback
	// says "64-bit process").
	Small bool `json:"small,omitempty"`
}

type builtProg struct {
	dir    string
	prog   *gen.Prog
	trace  []byte
	goroot string
}

func goEnvRoot(tool string) string {
	out, err := exec.Command(tool, "env", "GOROOT").Output()
	if err != nil {
		return ""
	}
	return strings.TrimSpace(string(out))
}

// buildAndCrash writes, compiles (-N -l) and runs the program; returns its real traceback.
func buildAndCrash(c *c19Case) (*builtProg, error) {
	rr := core.NewRand(c.Seed, 19, uint64(c.Idx))
	// every other program without a source mismatch is spread over two source files
	nf := 15 + rr.Intn(16)
	if c.Funcs != 0 {
		nf = c.Funcs
	}
	if c.Small {
		nf = 2 + rr.Intn(5)
	}
	p := gen.GenProgOpt(rr, nf, (c.Mismatch == "" && c.Idx%2 == 1) || c.Mismatch == "second-file-syntax", c.Small)
	dir := filepath.Join(os.Getenv("VERIF_WORK"), fmt.Sprintf("prog-%s-%d-%s-%v-%d-%v", c.Toolchain, c.Idx, c.Mismatch, c.Naming, c.Funcs, c.Small))
	_ = os.RemoveAll(dir)
	if err := os.MkdirAll(dir, 0o755); err != nil {
		return nil, err
	}
	if err := os.WriteFile(filepath.Join(dir, "main.go"), []byte(p.Src), 0o644); err != nil {
		return nil, err
	}
	if p.Src2 != "" {
		if err := os.WriteFile(filepath.Join(dir, "part2.go"), []byte(p.Src2), 0o644); err != nil {
			return nil, err
		}
	}
	if err := os.WriteFile(filepath.Join(dir, "go.mod"), []byte(fmt.Sprintf("module example.com/prog%d\n\ngo 1.23\n", c.Idx)), 0o644); err != nil {
		return nil, err
	}
	build := exec.Command(c.Toolchain, "build", "-gcflags", "-N -l", "-o", "prog", ".")
	build.Dir = dir
	build.Env = append(os.Environ(), "GOFLAGS=-mod=mod", "GOPROXY=off", "GOTOOLCHAIN=local", "CGO_ENABLED=0")
	if out, err := build.CombinedOutput(); err != nil {
		return nil, fmt.Errorf("generated program does not compile: %v\n%s\n%s", err, out, p.Src)
	}
	run := exec.Command(filepath.Join(dir, "prog"))
	run.Env = []string{"GOTRACEBACK=all"}
	var se bytes.Buffer
	run.Stderr = &se
	_ = run.Run()
	if !bytes.Contains(se.Bytes(), []byte("goroutine 1 [running]:")) {
		return nil, fmt.Errorf("program did not crash with a traceback: %s", se.String())
	}
	return &builtProg{dir: dir, prog: p, trace: se.Bytes(), goroot: goEnvRoot(c.Toolchain)}, nil
}

func flatValues(a *stack.Args) []*stack.Arg {
	var out []*stack.Arg
	var walk func(a *stack.Args)
	walk = func(a *stack.Args) {
		for i := range a.Values {
			if a.Values[i].IsAggregate {
				walk(&a.Values[i].Fields)
			} else {
				out = append(out, &a.Values[i])
			}
		}
	}
	walk(a)
	return out
}

// checkFrame compares one augmented frame with the literals the program passed.
func checkFrame(f *gen.ProgFunc, cl *stack.Call) string {
	flat := flatValues(&cl.Args)
	type exp struct {
		pp    *gen.ProgParam
		first int // index of its first word in flat
	}
	var want []exp
	pos := 0
	recv := gen.ProgParam{Kind: "*" + f.Recv, Words: 1, WantTag: "*" + f.Recv}
	if f.Method {
		want = append(want, exp{&recv, 0})
		pos = 1
	}
	for i := range f.Params {
		want = append(want, exp{&f.Params[i], pos})
		pos += f.Params[i].Words
	}
	shown := len(flat) // words the runtime printed
	if len(cl.Args.Processed) == 0 {
		if f.Deferred {
			// the frame is reported on the closing brace of its function; when that function is the last declaration
			// of its file the analysis finds no declaration for the line and leaves the frame as it is - which the
			// property allows (it promises truthful renderings, not a rendering for every frame)
			return ""
		}
		return "no typed rendering although the matching source is available"
	}
	for i, e := range want {
		if e.pp.Unsupported {
			break // a kind outside the property's list: everything from here on is "no crash" only
		}
		if e.first+e.pp.Words > shown {
			// beyond what the runtime printed: not shown, never wrong - unless the parameter straddles the cut and
			// its rendering states, for a word that was never printed, a length or capacity the program did not pass
			if e.first < shown && i < len(cl.Args.Processed) && (e.pp.WantTag == "string" || strings.HasPrefix(e.pp.WantTag, "[]")) {
				got := cl.Args.Processed[i]
				for _, m := range lenCapRe.FindAllStringSubmatch(got, -1) {
					v, _ := strconv.Atoi(m[2])
					if (m[1] == "len" && v != e.pp.Len) || (m[1] == "cap" && v != e.pp.Cap) {
						return fmt.Sprintf("parameter %d %s straddles the %d words the runtime printed: rendered %q, which states %s=%d; the program passed len=%d cap=%d (%s)", i, e.pp.Kind, shown, got, m[1], v, e.pp.Len, e.pp.Cap, e.pp.Lit)
					}
				}
			}
			break
		}
		if i >= len(cl.Args.Processed) {
			return fmt.Sprintf("parameter %d (%s) has no rendering: Processed=%q", i, e.pp.Kind, cl.Args.Processed)
		}
		got := cl.Args.Processed[i]
		w := flat[e.first]
		if w.IsOffsetTooLarge {
			continue
		}
		raw := fmt.Sprintf("0x%x", w.Value)
		if w.Name != "" {
			raw = w.Name // with naming on a pointer is shown by its pseudo-name
		}
		switch {
		case e.pp.IsFloat:
			bits := 64
			if e.pp.Kind == "float32" {
				bits = 32
			}
			v, err := strconv.ParseFloat(got, bits)
			if err != nil || (bits == 64 && v != e.pp.Float) || (bits == 32 && float32(v) != float32(e.pp.Float)) {
				return fmt.Sprintf("parameter %d %s: rendered %q, program passed %s", i, e.pp.Kind, got, e.pp.Lit)
			}
		case e.pp.Want != "":
			if got != e.pp.Want {
				return fmt.Sprintf("parameter %d %s: rendered %q, program passed %s", i, e.pp.Kind, got, e.pp.Lit)
			}
		case e.pp.WantTag == "string":
			if exp := fmt.Sprintf("string(%s, len=%d)", raw, e.pp.Len); got != exp {
				return fmt.Sprintf("parameter %d string: rendered %q want %q (passed %s)", i, got, exp, e.pp.Lit)
			}
		case strings.HasPrefix(e.pp.WantTag, "[]"):
			if exp := fmt.Sprintf("%s(%s len=%d cap=%d)", e.pp.WantTag, raw, e.pp.Len, e.pp.Cap); got != exp {
				return fmt.Sprintf("parameter %d %s: rendered %q want %q (passed %s)", i, e.pp.Kind, got, exp, e.pp.Lit)
			}
		default:
			if exp := fmt.Sprintf("%s(%s)", e.pp.WantTag, raw); got != exp {
				return fmt.Sprintf("parameter %d %s: rendered %q want %q (the frame's own raw pointer)", i, e.pp.Kind, got, exp)
			}
			if e.pp.Nil && w.Value != 0 {
				return fmt.Sprintf("parameter %d %s: nil was passed, frame shows %#x", i, e.pp.Kind, w.Value)
			}
		}
	}
	return ""
}

// lenCapRe finds the decimal lengths and capacities a rendering states.
var lenCapRe = regexp.MustCompile(`\b(len|cap)=(\d+)\b`)

// srcParses tells whether the file on disk is syntactically valid Go.
// declFirstParam matches the opening of a function declaration whose first parameter is p0 (declarations only: a
// recursive function also *calls* itself with p0 first).
var declFirstParam = regexp.MustCompile(`(?m)^(func (?:\([^)]*\) )?\w+)\(p0`)

func srcParses(p string) bool {
	_, err := parser.ParseFile(token.NewFileSet(), p, nil, 0)
	return err == nil
}

func c19Opts(goroot string, analyze, naming bool) *stack.Opts {
	return &stack.Opts{LocalGOROOT: goroot, LocalGOPATHs: []string{filepath.Join(os.Getenv("VERIF_WORK"), "nogopath")}, GuessPaths: true, AnalyzeSources: analyze, NameArguments: naming}
}

func c19Eval(r *core.Run, c *c19Case) {
	bp, err := buildAndCrash(c)
	if err != nil {
		r.Broken(err.Error())
		return
	}
	defer os.RemoveAll(bp.dir)
	report := func(key, what string) { r.Violation(key, what+"\n--- traceback head:\n"+b2s(bp.trace, 600), "prog", c) }
	if c.Idx%5 == 2 && c.Mismatch == "" {
		// the traceback is followed by a goroutine with a malformed frame: the snapshot is handed out together with a
		// parse error and its frames are to be typed like any other
		t := bytes.TrimRight(bytes.TrimSuffix(bytes.TrimRight(bp.trace, "\n"), []byte("exit status 2")), "\n")
		bp.trace = append(append([]byte{}, t...), []byte("\n\ngoroutine 99999 [running]:\nmain.broken(0x1)\nthis is not a file line\n")...)
		if _, _, _, err := scanAll(bp.trace, c19Opts(bp.goroot, false, c.Naming)); err != nil && err != io.EOF {
			r.Count("snapshots_returned_with_an_error", 1)
		}
	}
	off, _, _, _ := scanAll(bp.trace, c19Opts(bp.goroot, false, c.Naming))
	if off == nil {
		report("nosnapshot", "real traceback not parsed")
		return
	}
	src := filepath.Join(bp.dir, "main.go")
	if c.Mismatch != "" {
		orig, _ := os.ReadFile(src)
		switch c.Mismatch {
		case "delete":
			_ = os.Remove(src)
		case "truncate":
			_ = os.WriteFile(src, orig[:len(orig)/3], 0o644)
		case "shift":
			_ = os.WriteFile(src, append([]byte("package main\n\n// inserted\n// lines\n// on top\n\nvar shifted = 1\n\n"), bytes.TrimPrefix(orig, []byte("package main\n"))...), 0o644)
		case "arity":
			_ = os.WriteFile(src, declFirstParam.ReplaceAll(orig, []byte("${1}(extra0 string, p0")), 0o644)
		case "arity-int":
			_ = os.WriteFile(src, declFirstParam.ReplaceAll(orig, []byte("${1}(extra0 int, p0")), 0o644)
		case "older-short", "older-exact", "older-long":
			// an older, valid revision of the file that ends right around the line of one of the frames
			f := bp.prog.Funcs[(c.Idx*7)%len(bp.prog.Funcs)]
			n := f.CallLine - 1 // lines in the file: the frame's line is one past the end
			body := "package main\n\nfunc old(a int) {}\n"
			switch c.Mismatch {
			case "older-exact":
				n = f.CallLine // the frame's line is the last line, without a trailing newline
			case "older-long":
				n = f.CallLine + 1
			}
			for k := 3; k < n; k++ {
				body += "// older revision\n"
			}
			if c.Mismatch == "older-exact" {
				body = strings.TrimSuffix(body, "\n")
			}
			_ = os.WriteFile(src, []byte(body), 0o644)
		case "arity-less":
			// the source declares fewer parameters than the binary passes
			_ = os.WriteFile(src, regexp.MustCompile(`(?m)^(func [^\n]*)\(p0 [^,)]+, `).ReplaceAll(orig, []byte("$1(")), 0o644)
		case "syntax":
			_ = os.WriteFile(src, append(orig, []byte("\nfunc broken( {\n")...), 0o644)
		case "directory":
			_ = os.Remove(src)
			_ = os.MkdirAll(src, 0o755)
		case "symlink":
			_ = os.Remove(src)
			_ = os.Symlink(filepath.Join(bp.dir, "does-not-exist.go"), src)
		case "second-file-syntax":
			// only the second source file is unparsable: its frames stay as they are, the frames of main.go are typed
			p2 := filepath.Join(bp.dir, "part2.go")
			o2, _ := os.ReadFile(p2)
			_ = os.WriteFile(p2, append(o2, []byte("\nfunc broken( {\n")...), 0o644)
		case "empty":
			_ = os.WriteFile(src, nil, 0o644)
		case "other-package":
			_ = os.WriteFile(src, []byte("package main\n\nfunc unrelated() {}\n"), 0o644)
		}
	}
	if c.Mismatch == "" && c.Idx%4 == 3 {
		// the local checkout has CRLF line endings (git autocrlf on another platform): same lines, same declarations,
		// every byte offset after the first line shifted - the frames are to be typed exactly as with LF sources
		for _, f := range []string{"main.go", "part2.go"} {
			if b, err := os.ReadFile(filepath.Join(bp.dir, f)); err == nil {
				_ = os.WriteFile(filepath.Join(bp.dir, f), bytes.ReplaceAll(b, []byte("\n"), []byte("\r\n")), 0o644)
				r.Count("source_files_with_crlf_line_endings", 1)
			}
		}
	}
	if c.Mismatch == "mutated-trace" {
		// sources intact, the traceback itself corrupted (argument lists reshaped, lines spliced ...): source
		// analysis then meets argument shapes its types do not match. Only "never a crash" is decided here.
		rr := core.NewRand(c.Seed, 193, uint64(c.Idx))
		for k := 0; k < 12; k++ {
			mt := gen.Mutate(rr, bp.trace, bp.trace, 1+rr.Intn(6), 1<<20)
			var p any
			func() {
				defer func() { p = recover() }()
				_, _, _, _ = scanAll(mt, c19Opts(bp.goroot, true, c.Naming))
			}()
			r.Eval(1)
			if p != nil {
				r.Violation("panic", fmt.Sprintf("source analysis panicked on a corrupted traceback of a program whose sources are present: %v", p), "progtrace", map[string]any{"case": c, "trace": string(mt)})
				return
			}
		}
		return
	}
	var on *stack.Snapshot
	var panicked any
	func() {
		defer func() { panicked = recover() }()
		on, _, _, _ = scanAll(bp.trace, c19Opts(bp.goroot, true, c.Naming))
	}()
	r.Eval(1)
	if panicked != nil {
		report("panic", fmt.Sprintf("source analysis panicked (mismatch=%q): %v", c.Mismatch, panicked))
		return
	}
	if on == nil {
		report("nosnapshot", "no snapshot with source analysis on")
		return
	}
	if d := mon.DiffSnapshot(off, on, mon.EqOpt{IgnoreProcessed: true}); d != "" {
		report("frame-changed", fmt.Sprintf("source analysis (mismatch=%q) changed something else than the typed rendering: %s", c.Mismatch, d))
		return
	}
	byName := map[string]*gen.ProgFunc{}
	for i := range bp.prog.Funcs {
		f := &bp.prog.Funcs[i]
		n := f.Name
		if f.Method {
			n = "(*" + f.Recv + ")." + n
		}
		byName[n] = f
	}
	checked := 0
	for _, g := range on.Goroutines {
		for ci := range g.Stack.Calls {
			cl := &g.Stack.Calls[ci]
			f := byName[cl.Func.Name]
			if f == nil || cl.Func.ImportPath != "main" {
				continue
			}
			if c.Mismatch == "second-file-syntax" {
				if f.File != "" {
					if len(cl.Args.Processed) != 0 {
						report("augmented-without-source", fmt.Sprintf("frame %s carries a typed rendering %q although its source file part2.go does not parse", cl.Func.Name, cl.Args.Processed))
						return
					}
					continue
				}
				if d := checkFrame(f, cl); d != "" && len(cl.Args.Processed) != 0 {
					report("untruthful-argument", fmt.Sprintf("frame %s(%s) of main.go while part2.go does not parse: %s", cl.Func.Name, strings.Join(cl.Args.Processed, ", "), d))
					return
				}
				continue
			}
			switch c.Mismatch {
			case "":
				if cl.Line == f.RecurLine && f.Recur > 0 {
					r.Count("frames_of_recursive_calls", 1)
				} else if cl.Line != f.CallLine {
					report("line", fmt.Sprintf("frame %s: line %d, the call is on line %d", cl.Func.Name, cl.Line, f.CallLine))
					return
				}
				if d := checkFrame(f, cl); d != "" {
					report("untruthful-argument", fmt.Sprintf("frame %s(%s): %s | raw args %s", cl.Func.Name, strings.Join(cl.Args.Processed, ", "), d, (&stack.Args{Values: cl.Args.Values, Elided: cl.Args.Elided}).String()))
					return
				}
				checked++
				r.Count("frames_checked", 1)
				if f.File != "" {
					r.Count("frames_checked_in_second_source_file", 1)
				}
				for _, pp := range f.Params {
					r.Mark("kinds_checked", pp.Kind)
				}
			case "delete", "truncate", "syntax", "directory", "symlink", "empty":
				if c.Mismatch == "truncate" && srcParses(src) {
					break // the cut happened to fall on a declaration boundary: a valid, shorter file
				}
				if len(cl.Args.Processed) != 0 {
					report("augmented-without-source", fmt.Sprintf("frame %s carries a typed rendering %q although its source is %s", cl.Func.Name, cl.Args.Processed, c.Mismatch))
					return
				}
			}
		}
	}
	if c.Mismatch == "" && checked < len(bp.prog.Funcs) {
		report("frames-missing", fmt.Sprintf("%d of %d generated frames found in the parsed traceback", checked, len(bp.prog.Funcs)))
	}
}

func runC19(r *core.Run) {
	r.Rule("generated Go programs: one chain of 15..30 functions and pointer-receiver methods, 1..6 parameters each drawn from bool, int/int8..64, uint/uint8..64, uintptr, byte, rune, float32/64, string, slices, pointers, map, chan, func (<= 10 machine words, some deliberately more; consecutive same-type parameters sometimes grouped), every call with literal boundary values; plus short chains of plain functions whose every argument fits in 32 bits (values around 2^31 and 2^32, no pointer anywhere in the traceback); compiled with -gcflags '-N -l', crashed, the REAL traceback parsed with source analysis. " +
		"Each rendered argument is compared with the literal the program passed; raw values and every other field must equal the parse without source analysis; mismatching source trees (deleted, truncated, shifted, different arity, syntax error, directory, dangling symlink, empty, unrelated) must neither crash nor change a frame, and must not produce a rendering when the file is missing/unparsable. distinct by (seed, index, toolchain); non-trivial = every program (15+ frames)")
	r.Assume("the installed toolchains' traceback encoding of arguments with -N -l (values beyond the 10-word limit are 'not shown')")
	tools := []string{"go"}
	if !r.Quick() {
		tools = append(tools, "go1.26.8")
	}
	np := r.N(100, 1200)
	mism := []string{"delete", "truncate", "shift", "arity", "syntax", "directory", "symlink", "empty", "other-package", "arity-int", "arity-less", "mutated-trace", "mutated-trace", "arity-int", "older-short", "older-exact", "older-long", "older-short", "older-exact", "second-file-syntax", "second-file-syntax"}
	nm := r.N(240, 3000)
	type job struct{ c c19Case }
	var jobs []c19Case
	for _, t := range tools {
		for i := 0; i < np; i++ {
			jobs = append(jobs, c19Case{Seed: r.Seed, Idx: i, Toolchain: t, Naming: i%2 == 1})
		}
		for i := 0; i < np/5; i++ {
			jobs = append(jobs, c19Case{Seed: r.Seed, Idx: 5000 + i, Toolchain: t, Naming: i%2 == 1, Small: true})
		}
		for i := 0; i < nm/len(tools); i++ {
			jobs = append(jobs, c19Case{Seed: r.Seed, Idx: 1000 + i, Toolchain: t, Mismatch: mism[i%len(mism)]})
		}
	}
	core.Parallel(len(jobs), workers(), func(i int) {
		c := jobs[i]
		c19Eval(r, &c)
		r.Distinct(core.HashStr(fmt.Sprint(c)))
		r.Mark("toolchains", c.Toolchain)
		r.Mark("mismatch_modes", c.Mismatch)
	})
	p := gen.GenProg(core.NewRand(r.Seed, 19, 0), 15)
	r.Sample(map[string]any{"program_head": core.Trunc(p.Src, 1500)})
}

func replayC19(r *core.Run, kind string, raw json.RawMessage) {
	var c c19Case
	if err := json.Unmarshal(raw, &c); err != nil {
		r.Broken(err.Error())
		return
	}
	c19Eval(r, &c)
}
