package main

import (
	"bytes"
	"fmt"
	"os"
	"os/exec"
	"strings"
	"sync"

	"github.com/maruel/panicparse/v2/stack"

	"verifharness/core"
	"verifharness/gen"
)

// Phase (0) of C14, run before anything else in the process touches the library: W goroutines, each on its own
// snapshot and its own buffers, aggregate and render at the same time as the first calls of the process, so that
// anything the library initialises lazily (caches, memoised values, pools) is initialised under contention. The
// race detector watches; afterwards every document is compared with the same rendering done alone.

func c14ColdPool() []stack.Call {
	mk := func(fn, file string, line int, loc stack.Location, rel, imp string) stack.Call {
		c := gen.MkCall(fn, file, line, loc, stack.Args{Values: []stack.Arg{gen.Sc(0xc000012340), gen.Sc(7)}})
		c.RelSrcPath, c.ImportPath = rel, imp
		if loc != stack.LocationUnknown {
			c.LocalSrcPath = "/local" + file
		}
		return c
	}
	return []stack.Call{
		mk("fmt.Println", "/goroot/src/fmt/print.go", 10, stack.Stdlib, "fmt/print.go", "fmt"),
		mk("net/http.(*Server).Serve", "/goroot/src/net/http/server.go", 3000, stack.Stdlib, "net/http/server.go", "net/http"),
		mk("main.main", "/tmp/go-build/_test/_testmain.go", 5, stack.Stdlib, "_test/_testmain.go", "main"),
		mk("example.com/mod/pkg.F", "/w/mod/pkg/f.go", 20, stack.GoMod, "pkg/f.go", "example.com/mod/pkg"),
		mk("github.com/gp/lib.G", "/gopath/src/github.com/gp/lib/g.go", 30, stack.GOPATH, "github.com/gp/lib/g.go", "github.com/gp/lib"),
		mk("github.com/dep/x.H", "/gopath/pkg/mod/github.com/dep/x@v1.0.0/h.go", 40, stack.GoPkg, "github.com/dep/x@v1.0.0/h.go", "github.com/dep/x@v1.0.0"),
		mk("golang.org/x/sync/errgroup.(*Group).Go", "/gopath/pkg/mod/golang.org/x/sync@v0.1.0/errgroup/errgroup.go", 50, stack.GoPkg, "golang.org/x/sync@v0.1.0/errgroup/errgroup.go", "golang.org/x/sync@v0.1.0/errgroup"),
		mk("gopkg.in/yaml%2ev2.Unmarshal", "/gopath/pkg/mod/gopkg.in/yaml.v2@v2.3.0/yaml.go", 60, stack.GoPkg, "gopkg.in/yaml.v2@v2.3.0/yaml.go", "gopkg.in/yaml.v2@v2.3.0"),
		mk("unknown/y.K", "/somewhere/y/k.go", 70, stack.LocationUnknown, "", ""),
		mk("main.run", "/w/mod/main.go", 80, stack.GoMod, "main.go", "main"),
	}
}

func c14ColdSnapshot(rr *core.Rand) *stack.Snapshot {
	pool := c14ColdPool()
	var sigs []*stack.Signature
	for g := 0; g < 3+rr.Intn(5); g++ {
		sig := &stack.Signature{State: []string{"chan receive", "select", "IO wait"}[rr.Intn(3)], SleepMin: rr.Intn(3), Locked: rr.Chance(1, 4)}
		sig.SleepMax = sig.SleepMin
		for k := 0; k < 1+rr.Intn(4); k++ {
			sig.Stack.Calls = append(sig.Stack.Calls, pool[rr.Intn(len(pool))])
		}
		// every snapshot has standard library, module cache and unknown frames
		sig.Stack.Calls = append(sig.Stack.Calls, pool[g%3], pool[5+g%3])
		if rr.Bool() {
			sig.CreatedBy.Calls = []stack.Call{pool[rr.Intn(len(pool))]}
		}
		sigs = append(sigs, sig)
	}
	s := gen.MkSnapshot(sigs)
	s.LocalGOROOT, s.RemoteGOROOT = "/local/goroot", "/goroot"
	return s
}

func c14Render(s *stack.Snapshot) [2][]byte {
	var out [2][]byte
	var b bytes.Buffer
	_ = s.Aggregate(stack.AnyPointer).ToHTML(&b, "")
	out[0] = maskHTML(append([]byte{}, b.Bytes()...))
	b.Reset()
	_ = s.ToHTML(&b, "")
	out[1] = maskHTML(append([]byte{}, b.Bytes()...))
	return out
}

// c14ColdChild is the cold start in a process of its own (same binary, same race detector log): whether the
// detector sees a racy lazy initialisation depends on incidental synchronisation between the first callers, so
// the parent starts several such processes. Prints "cold ok" or "cold differs <what>".
func c14ColdChild(seed string) {
	var sd int64
	fmt.Sscan(seed, &sd)
	if what := c14Cold(sd); what != "" {
		fmt.Println("cold differs " + what)
		return
	}
	fmt.Println("cold ok")
}

func c14ColdStart(r *core.Run) {
	if what := c14Cold(r.Seed); what != "" {
		if strings.HasPrefix(what, "BROKEN") {
			r.Broken(what)
		} else {
			r.Violation("cold-start-result", what, "conc", map[string]any{"seed": r.Seed})
		}
		return
	}
	r.Eval(16)
	kids := r.N(8, 24)
	for k := 0; k < kids; k++ {
		cmd := exec.Command(os.Args[0], "c14cold", fmt.Sprint(r.Seed+int64(1000*(k+1))))
		cmd.Env = os.Environ()
		out, err := cmd.CombinedOutput()
		r.Eval(16)
		if err != nil || !bytes.Contains(out, []byte("cold ok")) {
			if bytes.Contains(out, []byte("cold differs")) {
				r.Violation("cold-start-result", "in a fresh process: "+core.Trunc(string(out), 600), "conc", map[string]any{"child": k})
			} else {
				r.Broken(fmt.Sprintf("cold-start child process failed: %v %s", err, core.Trunc(string(out), 600)))
			}
			return
		}
	}
	r.Set("cold_start_processes", kids+1)
	r.Set("cold_start_concurrent_first_renderings", 16)
}

func c14Cold(seed int64) string {
	const w = 16
	snaps := make([]*stack.Snapshot, w)
	for i := range snaps {
		snaps[i] = c14ColdSnapshot(core.NewRand(seed, 140, uint64(i)))
	}
	got := make([][2][]byte, w)
	start := make(chan struct{})
	var wg sync.WaitGroup
	for i := 0; i < w; i++ {
		wg.Add(1)
		go func(i int) {
			defer wg.Done()
			<-start
			got[i] = c14Render(snaps[i])
		}(i)
	}
	close(start)
	wg.Wait()
	for i := 0; i < w; i++ {
		want := c14Render(snaps[i])
		for k := 0; k < 2; k++ {
			if !bytes.Equal(got[i][k], want[k]) {
				d := firstDiff(got[i][k], want[k])
				return fmt.Sprintf("one of the first %d concurrent renderings of the process differs from the same rendering done alone, first difference at byte %d: %q vs %q", w, d, b2s(tailFrom(got[i][k], d), 100), b2s(tailFrom(want[k], d), 100))
			}
		}
		if len(want[0]) < 2000 || !bytes.Contains(want[0], []byte("golang/go")) {
			return "BROKEN cold-start documents have no standard library link: the phase observed nothing"
		}
	}
	return ""
}
