package main

import (
	"bytes"
	"encoding/json"
	"fmt"
	"os"
	"path/filepath"
	"strings"

	"github.com/maruel/panicparse/v2/stack"

	"verifharness/core"
	"verifharness/gen"
	xhtml "verifharness/third_party/xhtml"
)

func init() {
	checks["C17"] = check{level: "exploration", run: runC17, replay: replayC17}
}

var htmlPayloads = []string{
	`<script>alert(1)</script>`, `"><img src=x onerror=alert(1)>`, `' onmouseover='alert(1)`, `javascript:alert(1)`, `</style><script>alert(1)</script>`,
	`</title><script>x</script>`, `--><!-- `, `<!--`, `&lt;b&gt;`, `&#x3c;script&#x3e;`, `%3Cscript%3E`, "`onload=`", `{{.}}`, "a\x00b", "  ", `data:text/html;base64,PHNjcmlwdD4=`,
	` spaced out `, `!"#$%&'()*+,-./:;<=>?@[\]^_{|}~`, `héllo/wörld`, `日本語`, `\"; alert(1); //`, `</a><a href="javascript:x">`, `" style="x:expression(1)`, `]]>`, `<svg/onload=alert(1)>`,
	`vendor/github.com/x/y`, `@v1.2.3`, `#fragment?query=1&x=<y>`, `..%2f..%2f`, "tab\there", `file:///etc/passwd`, `//evil.example/`, `\\evil\share`, "line\nbreak",
	// the module cache's case encoding ("!x" for "X") and its degenerate forms
	// fragments of method symbols: "(*T).M" cut short or turned around
	`(`, `(*T`, `(<b>`, `).`, `(*T).`, `)`, `.(`, `(*`,
	`!burnt!sushi`, `trailing!`, `dou!!ble`, `!`, `%21`, `@`, `@@v1`, `v2@`,
}

type c17Case struct {
	Seed int64  `json:"seed"`
	Idx  int    `json:"idx"`
	Kind string `json:"kind"` // built | parsed
}

type marked struct {
	markers  []string // markers that must come back (as text or inside an href)
	nBlocks  int
	nFrames  int
	nElided  int
	snapshot bool // rendered with Snapshot.ToHTML
}

// vocabulary is the template's fixed set of tags and attributes.
type vocabulary struct {
	tagAttr map[string]bool // "tag" and "tag attr"
}

func loadVocabulary() (*vocabulary, error) {
	b, err := os.ReadFile(filepath.Join(core.Repo(), "stack", "goroutines.tpl"))
	if err != nil {
		return nil, err
	}
	v := &vocabulary{tagAttr: map[string]bool{}}
	z := xhtml.NewTokenizer(bytes.NewReader(b))
	for {
		tt := z.Next()
		if tt == xhtml.ErrorToken {
			break
		}
		if tt == xhtml.StartTagToken || tt == xhtml.SelfClosingTagToken {
			t := z.Token()
			v.tagAttr[t.Data] = true
			for _, a := range t.Attr {
				v.tagAttr[t.Data+" "+a.Key] = true
			}
		}
	}
	if !v.tagAttr["a href"] || !v.tagAttr["table class"] || len(v.tagAttr) < 20 {
		return nil, fmt.Errorf("template vocabulary looks wrong: %d entries", len(v.tagAttr))
	}
	return v, nil
}

func hasMarker(s string) bool { return strings.Contains(s, "MRK") }

// checkHTML tokenizes doc and applies the injection-safety and completeness rules.
func checkHTML(doc []byte, voc *vocabulary, m *marked) (key, what string) {
	z := xhtml.NewTokenizer(bytes.NewReader(doc))
	seen := map[string]bool{}
	note := func(s string) {
		for _, mk := range m.markers {
			if strings.Contains(s, mk) {
				seen[mk] = true
			}
		}
	}
	h1, stackTables, tds := 0, 0, 0
	inStack := 0
	rawTag := ""
	for {
		tt := z.Next()
		if tt == xhtml.ErrorToken {
			break
		}
		t := z.Token()
		switch tt {
		case xhtml.CommentToken:
			return "comment", fmt.Sprintf("the document contains a comment: %q", core.Trunc(t.Data, 100))
		case xhtml.DoctypeToken:
			if hasMarker(t.Data) {
				return "marker-in-doctype", t.Data
			}
		case xhtml.TextToken:
			if rawTag == "style" || rawTag == "title" || rawTag == "script" {
				if hasMarker(t.Data) {
					return "dump-content-in-raw-text", fmt.Sprintf("<%s> contains dump content: %q", rawTag, core.Trunc(t.Data, 120))
				}
			} else {
				note(t.Data)
			}
		case xhtml.StartTagToken, xhtml.SelfClosingTagToken:
			if !voc.tagAttr[t.Data] {
				return "foreign-element", fmt.Sprintf("element <%s> is not in the template's vocabulary", core.Trunc(t.Data, 60))
			}
			if t.Data == "script" {
				return "script", "a <script> element"
			}
			for _, a := range t.Attr {
				if strings.HasPrefix(a.Key, "on") {
					return "event-handler", fmt.Sprintf("<%s %s=...>", t.Data, a.Key)
				}
				if !voc.tagAttr[t.Data+" "+a.Key] {
					return "foreign-attribute", fmt.Sprintf("attribute %q on <%s> is not in the template's vocabulary (value %q)", core.Trunc(a.Key, 60), t.Data, core.Trunc(a.Val, 60))
				}
				if a.Key == "href" {
					if a.Val != "" && !strings.HasPrefix(a.Val, "https://") && !strings.HasPrefix(a.Val, "file:///") && !strings.HasPrefix(a.Val, "data:image/gif;base64,") {
						return "href-scheme", fmt.Sprintf("link target with a scheme of its own: %q", core.Trunc(a.Val, 120))
					}
					if i := strings.IndexAny(a.Val, "\"'<>` \t\n\r\x00"); i >= 0 && t.Data == "a" {
						return "href-unescaped", fmt.Sprintf("link target contains unescaped %q: %q", a.Val[i], core.Trunc(a.Val, 120))
					}
					note(a.Val)
					continue
				}
				if hasMarker(a.Val) && !(t.Data == "meta" || a.Key == "class" && false) {
					return "dump-content-in-attribute", fmt.Sprintf("dump content inside attribute %s of <%s>: %q", a.Key, t.Data, core.Trunc(a.Val, 100))
				}
				if a.Key == "class" {
					for _, cl := range strings.Fields(a.Val) {
						if hasMarker(cl) {
							return "dump-content-in-class", a.Val
						}
					}
				}
			}
			switch t.Data {
			case "style", "title", "script":
				if tt == xhtml.StartTagToken {
					rawTag = t.Data
				}
			case "h1":
				h1++
			case "table":
				isStack := false
				for _, a := range t.Attr {
					if a.Key == "class" && a.Val == "stack" {
						isStack = true
					}
				}
				if isStack {
					stackTables++
					inStack++
				}
			case "td":
				if inStack > 0 {
					tds++
				}
			}
		case xhtml.EndTagToken:
			if t.Data == rawTag {
				rawTag = ""
			}
			if t.Data == "table" && inStack > 0 {
				inStack--
			}
		}
	}
	for _, mk := range m.markers {
		if !seen[mk] {
			return "content-missing", fmt.Sprintf("marker %s placed in the snapshot does not come back as character data or inside a link target", mk)
		}
	}
	if h1 != m.nBlocks || stackTables != m.nBlocks {
		return "block-count", fmt.Sprintf("%d <h1> and %d stack tables for %d buckets/goroutines", h1, stackTables, m.nBlocks)
	}
	if want := 4*m.nFrames + m.nElided; tds != want {
		return "frame-count", fmt.Sprintf("%d cells in the stack tables, want %d (4 per frame for %d frames + %d elided markers)", tds, want, m.nFrames, m.nElided)
	}
	return "", ""
}

// hostileSnapshot builds a snapshot whose every string field carries a payload and a marker.
func hostileSnapshot(rr *core.Rand) (*stack.Snapshot, *marked) {
	m := &marked{}
	n := 0
	mk := func(required bool) string {
		n++
		s := fmt.Sprintf("MRK%dx", n)
		if required {
			m.markers = append(m.markers, s)
		}
		return s
	}
	pay := func(required bool) string {
		p := rr.Pick(htmlPayloads)
		if rr.Bool() {
			return mk(required) + p
		}
		return p + mk(required)
	}
	families := []string{"github.com/", "golang.org/x/", "gopkg.in/", "example.com/vendor/github.com/", "", "github.com/user/repo@v1.2.3/", "golang.org/x/sys@v0.0.0-20200223170610-d5e6a3e2c0ae/", "gopkg.in/yaml.v2@v2.3.0/"}
	mkCall := func() stack.Call {
		c := stack.Call{}
		c.Func = stack.Func{Complete: pay(true), ImportPath: pay(false), DirName: pay(true), Name: pay(true), IsExported: rr.Bool(), IsPkgMain: rr.Chance(1, 6)}
		c.RemoteSrcPath = "/" + pay(true)
		if rr.Chance(1, 3) {
			// relative paths (-trimpath builds), possibly with a colon in the first segment
			c.RemoteSrcPath = rr.Pick([]string{"", "javascript:alert(1)//", "vbscript:x/", "data:text/html,", "C:", "x/"}) + c.RemoteSrcPath[1:]
		}
		c.SrcName = pay(true)
		c.DirSrc = pay(false)
		c.Line = rr.Intn(100000)
		c.Location = stack.Location(rr.Intn(5))
		fam := rr.Pick(families)
		switch rr.Intn(4) {
		case 3:
			// a versioned module whose host, user and project@version segments carry payloads
			// versions: plain, pseudo-versions of the three forms, +incompatible, and versions that only look like them
			ver := rr.Pick([]string{"v1.2.3", "v0.0.0-20200223170610-d5e6a3e2c0ae", "v1.2.3-0.20200223170610-d5e6a3e2c0ae", "v1.2.3-pre.0.20200223170610-d5e6a3e2c0ae", "v2.0.0+incompatible",
				"v1.2.3-" + rr.Pick(htmlPayloads), "v1.2.3-experimentalbranchname", "v0.0.0-" + rr.Pick(htmlPayloads) + "-d5e6a3e2c0ae", "v0.0.0-20200223170610-", "v-", "-", rr.Pick(htmlPayloads)})
			c.RelSrcPath = rr.Pick([]string{"github.com/", "golang.org/x/", "gopkg.in/", "example.org/"}) + pay(false) + "/" + pay(false) + "@" + ver + "/" + pay(false) + ".go"
			if rr.Bool() {
				c.RelSrcPath = rr.Pick([]string{"github.com/", "golang.org/x/"}) + rr.Pick(htmlPayloads) + "/" + rr.Pick(htmlPayloads) + "@" + ver + "/w.go"
			}
			c.ImportPath = "github.com/" + pay(false)
		case 0:
			c.RelSrcPath = fam + pay(false) + "/" + pay(false) + "/" + pay(false) + ".go"
			c.ImportPath = fam + pay(false)
		case 1:
			c.RelSrcPath = fam + "u/r/" + pay(false)
			if rr.Chance(1, 3) {
				// a file directly at the root of its module or tree: no directory part
				c.RelSrcPath = rr.Pick([]string{"main.go", "server.go", pay(false) + ".go", ".go", "a"})
			}
		}
		if rr.Bool() {
			c.LocalSrcPath = rr.Pick([]string{"/local/", "/local/", "javascript:alert(1)//", ""}) + pay(true)
		}
		na := rr.Intn(4)
		for k := 0; k < na; k++ {
			switch rr.Intn(4) {
			case 0:
				c.Args.Values = append(c.Args.Values, stack.Arg{Name: pay(true), Value: 1, IsPtr: true})
			case 1:
				c.Args.Values = append(c.Args.Values, gen.Ag(rr.Bool(), gen.Sc(uint64(rr.Intn(100))), stack.Arg{Name: pay(true)}))
			default:
				c.Args.Values = append(c.Args.Values, gen.Sc(rr.U64()))
			}
		}
		if rr.Chance(1, 5) {
			c.Args.Processed = []string{pay(true), pay(true)}
			// names of raw values are not shown when Processed is set: drop their markers
			var keep []string
			for _, x := range m.markers {
				used := false
				var walk func(a *stack.Args)
				walk = func(a *stack.Args) {
					for i := range a.Values {
						if strings.Contains(a.Values[i].Name, x) {
							used = true
						}
						walk(&a.Values[i].Fields)
					}
				}
				walk(&c.Args)
				if !used {
					keep = append(keep, x)
				}
			}
			m.markers = keep
		}
		c.Args.Elided = rr.Chance(1, 5)
		return c
	}
	s := &stack.Snapshot{LocalGOROOT: "/" + pay(true), RemoteGOROOT: "/" + pay(true), LocalGOPATHs: []string{"/" + pay(true), "/" + pay(true)}}
	if rr.Bool() {
		s.LocalGomods = map[string]string{"/" + pay(true): pay(true), "/" + pay(true): pay(true)}
	}
	m.snapshot = rr.Chance(1, 3)
	ng := 1 + rr.Intn(5)
	for g := 0; g < ng; g++ {
		gr := &stack.Goroutine{ID: g + 1, First: g == 0}
		gr.State = pay(true)
		gr.Locked = rr.Bool()
		if rr.Bool() {
			gr.SleepMin, gr.SleepMax = rr.Intn(10), 10+rr.Intn(10)
		}
		nf := 1 + rr.Intn(4)
		if rr.Chance(1, 40) {
			// a very deep stack (deeper than the 100 frames the runtime prints when it elides): every frame appears
			nf = 99 + rr.Intn(70)
		}
		for k := 0; k < nf; k++ {
			gr.Stack.Calls = append(gr.Stack.Calls, mkCall())
		}
		gr.Stack.Elided = rr.Chance(1, 4)
		if rr.Bool() {
			before := len(m.markers)
			cb := mkCall()
			// the creator line shows SrcName, DirName, Name, paths and Complete, no arguments
			var keep []string
			for _, x := range m.markers[before:] {
				inArgs := false
				var walk func(a *stack.Args)
				walk = func(a *stack.Args) {
					for i := range a.Values {
						if strings.Contains(a.Values[i].Name, x) {
							inArgs = true
						}
						walk(&a.Values[i].Fields)
					}
					for _, p := range a.Processed {
						if strings.Contains(p, x) {
							inArgs = true
						}
					}
				}
				walk(&cb.Args)
				if !inArgs {
					keep = append(keep, x)
				}
			}
			m.markers = append(m.markers[:before], keep...)
			gr.CreatedBy.Calls = []stack.Call{cb}
		}
		if m.snapshot {
			gr.RaceAddr = 0xc000012340
			gr.RaceWrite = rr.Bool()
		}
		s.Goroutines = append(s.Goroutines, gr)
		m.nFrames += nf
		if gr.Stack.Elided {
			m.nElided++
		}
	}
	m.nBlocks = ng
	return s, m
}

func c17Eval(r *core.Run, voc *vocabulary, c *c17Case) {
	rr := core.NewRand(c.Seed, 17, uint64(c.Idx))
	report := func(key, what string) { r.Violation(key, what, "html", c) }
	var doc bytes.Buffer
	var m *marked
	var err error
	var panicked any
	if c.Kind == "built" {
		var s *stack.Snapshot
		s, m = hostileSnapshot(rr)
		func() {
			defer func() { panicked = recover() }()
			if m.snapshot {
				err = s.ToHTML(&doc, "")
			} else {
				// every goroutine has its own state marker: no merging, one bucket per goroutine
				err = s.Aggregate(stack.ExactFlags).ToHTML(&doc, "")
			}
		}()
	} else {
		// hostile text through the parser: payloads in state, symbol and path of a dump
		m = &marked{}
		d := gen.GenDump(rr, &gen.Cfg{MaxG: 4, MaxFrames: 4, MaxDepth: 2, NoUnavail: true}, 0)
		d.F = gen.Format{FileIndent: "\t"}
		k := 0
		clean := func(p string) string {
			return strings.NewReplacer("\n", "", "\r", "", "]", "", "(", "", ")", "", ", ", ",", "\x00", "").Replace(p)
		}
		for gi := range d.Gs {
			g := &d.Gs[gi]
			k++
			mk := fmt.Sprintf("MRK%dx", k)
			g.State = clean(rr.Pick(htmlPayloads)) + mk
			m.markers = append(m.markers, mk)
			for fi := range g.Frames {
				k++
				mk := fmt.Sprintf("MRK%dx", k)
				g.Frames[fi].Sym = gen.Sym{Pkg: "example.com/" + clean(rr.Pick(htmlPayloads)), Name: "F" + mk}
				g.Frames[fi].File = rr.Pick([]string{"/src/", "/src/", "javascript:alert(1)//", "vbscript:x/", ""}) + clean(rr.Pick(htmlPayloads)) + "/" + mk + ".go"
				m.markers = append(m.markers, mk)
				m.nFrames++
			}
			if g.ElidedAfter > 0 {
				m.nElided++
			}
			g.Creator = nil
		}
		m.nBlocks = len(d.Gs)
		s, _, _, _ := scanAll(d.Render(), namingOpts())
		if s == nil || len(s.Goroutines) != len(d.Gs) {
			// the payload made the line something else than a dump line: not this property's business
			r.Count("parsed_cases_skipped", 1)
			return
		}
		func() {
			defer func() { panicked = recover() }()
			err = s.Aggregate(stack.ExactFlags).ToHTML(&doc, "")
		}()
	}
	r.Eval(1)
	if panicked != nil {
		report("panic", fmt.Sprintf("ToHTML panicked: %v", panicked))
		return
	}
	if err != nil {
		report("error", fmt.Sprintf("ToHTML failed: %v", err))
		return
	}
	if k, w := checkHTML(doc.Bytes(), voc, m); k != "" {
		report(k, w)
	}
	r.Count("markers_checked", len(m.markers))
}

func runC17(r *core.Run) {
	r.Rule("snapshots built directly from exported structs whose EVERY string field (state, Complete, Name, DirName, ImportPath, SrcName, RemoteSrcPath, LocalSrcPath, RelSrcPath, argument names, Processed, GOROOT/GOPATH/module metadata) carries a payload from a 34-entry corpus (tag/attribute/URL/comment/entity/javascript:/CSS breakouts, all ASCII punctuation, NUL, U+2028, non-ASCII) plus a unique marker, x 5 location classes x 8 path families x {Aggregated, Snapshot with race fields} x elided stacks x nested aggregates; and hostile dumps through the parser. " +
		"The output is tokenized with an HTML5 tokenizer (vendored x/net/html): every tag/attribute must be in the vocabulary read from goroutines.tpl, no script/event handler/comment, hrefs https:/file:/data: without raw quote/angle/space/backquote, markers only in character data or hrefs and all present, h1/stack-table/cell counts equal to the input's. distinct by (seed, index); non-trivial = every case (payloads in every field)")
	r.Assume("the vendored HTML5 tokenizer is the browser-side reading of the document")
	voc, err := loadVocabulary()
	if err != nil {
		r.Broken("cannot derive the template vocabulary: " + err.Error())
		return
	}
	r.Set("template_vocabulary_size", len(voc.tagAttr))
	n := r.N(40000, 1000000)
	core.Parallel(n, workers(), func(i int) {
		c := &c17Case{Seed: r.Seed, Idx: i, Kind: "built"}
		if i%4 == 3 {
			c.Kind = "parsed"
		}
		c17Eval(r, voc, c)
		r.Distinct(uint64(i) + 1)
		if i == 0 {
			c17PPHTML(r, voc, r.N(60, 1500))
		}
		if i < 2 {
			s, _ := hostileSnapshot(core.NewRand(r.Seed, 17, uint64(i)))
			r.Sample(map[string]any{"state": s.Goroutines[0].State, "func": s.Goroutines[0].Stack.Calls[0].Func.Complete, "path": s.Goroutines[0].Stack.Calls[0].RemoteSrcPath})
		}
	})
}

// c17PPHTML renders hostile dumps with the real pp binary (-html file), with and without the
// "To see all goroutines" footer, and applies the same tokenizer rules to the file it writes.
func c17PPHTML(r *core.Run, voc *vocabulary, n int) {
	if _, err := os.Stat(ppPath()); err != nil {
		r.Broken("pp binary missing")
		return
	}
	core.Parallel(n, workers(), func(i int) {
		rr := core.NewRand(r.Seed, 171, uint64(i))
		d := gen.GenDump(rr, &gen.Cfg{MaxG: 3, MaxFrames: 4, MaxDepth: 2, NoUnavail: true, NoCreator: true}, 0)
		d.F = gen.Format{FileIndent: "\t"}
		if i%2 == 0 {
			d.Gs = d.Gs[:1] // a single goroutine: pp adds its GOTRACEBACK footer when the variable is unset
		}
		m := &marked{}
		k := 0
		clean := func(p string) string {
			return strings.NewReplacer("\n", "", "\r", "", "]", "", "(", "", ")", "", ", ", ",", "\x00", "").Replace(p)
		}
		if i%5 == 4 {
			// a race report: pp renders the goroutines (Snapshot.ToHTML) instead of buckets
			rc := gen.GenRace(rr, &gen.RaceCfg{MaxOps: 3, MaxFrames: 3, CreateMode: 1})
			rc.CRLF, rc.NoFinalEOL = false, false
			for oi := range rc.Ops {
				for fi := range rc.Ops[oi].Frames {
					k++
					mk := fmt.Sprintf("MRK%dx", k)
					rc.Ops[oi].Frames[fi].Sym = gen.Sym{Pkg: "example.com/" + clean(rr.Pick(htmlPayloads)), Name: "F" + mk}
					rc.Ops[oi].Frames[fi].File = "/src/" + clean(rr.Pick(htmlPayloads)) + "/" + mk + ".go"
					m.markers = append(m.markers, mk)
				}
			}
			in := rc.Render()
			if s, _, _, _ := scanAll(in, namingOpts()); s == nil || !s.IsRace() {
				return
			}
			out := filepath.Join(os.Getenv("VERIF_WORK"), fmt.Sprintf("pp-%d.html", i))
			res := runPPEnv(in, false, "-rebase=false", "-html", out)
			r.Eval(1)
			r.Count("pp_html_race_runs", 1)
			doc, err := os.ReadFile(out)
			_ = os.Remove(out)
			if res.Exit != 0 || err != nil {
				r.Violation("pp-html-failed", fmt.Sprintf("pp -html on a race report: exit=%d err=%v stderr=%s", res.Exit, err, b2s(res.Stderr, 300)), "pphtml", map[string]any{"input": string(in)})
				return
			}
			if key, what := checkHTML(doc, voc, m); key != "" && key != "block-count" && key != "frame-count" {
				r.Violation("pp-html-race:"+key, what, "pphtml", map[string]any{"input": string(in)})
			}
			return
		}
		for gi := range d.Gs {
			g := &d.Gs[gi]
			k++
			mk := fmt.Sprintf("MRK%dx", k)
			g.State = clean(rr.Pick(htmlPayloads)) + mk
			g.ElidedAfter = 0
			m.markers = append(m.markers, mk)
			for fi := range g.Frames {
				k++
				mk := fmt.Sprintf("MRK%dx", k)
				g.Frames[fi].Sym = gen.Sym{Pkg: "example.com/" + clean(rr.Pick(htmlPayloads)), Name: "F" + mk}
				g.Frames[fi].File = rr.Pick([]string{"/src/", "javascript:alert(1)//", ""}) + clean(rr.Pick(htmlPayloads)) + "/" + mk + ".go"
				m.markers = append(m.markers, mk)
				m.nFrames++
			}
		}
		m.nBlocks = len(d.Gs)
		in := d.Render()
		if s, _, _, _ := scanAll(in, namingOpts()); s == nil || len(s.Goroutines) != len(d.Gs) {
			return
		}
		out := filepath.Join(os.Getenv("VERIF_WORK"), fmt.Sprintf("pp-%d.html", i))
		env := []string{}
		res := runPPEnv(in, i%2 == 0, "-rebase=false", "-html", out)
		_ = env
		r.Eval(1)
		r.Count("pp_html_runs", 1)
		doc, err := os.ReadFile(out)
		_ = os.Remove(out)
		if res.Exit != 0 || err != nil {
			r.Violation("pp-html-failed", fmt.Sprintf("pp -html exit=%d err=%v stderr=%s", res.Exit, err, b2s(res.Stderr, 300)), "pphtml", map[string]any{"input": string(in)})
			return
		}
		// with a single goroutine and one bucket per state the counts are those of the dump
		if key, what := checkHTML(doc, voc, m); key != "" && key != "block-count" && key != "frame-count" {
			r.Violation("pp-html:"+key, what, "pphtml", map[string]any{"input": string(in)})
		}
	})
}

func replayC17(r *core.Run, kind string, raw json.RawMessage) {
	var c c17Case
	if err := json.Unmarshal(raw, &c); err != nil {
		r.Broken(err.Error())
		return
	}
	voc, err := loadVocabulary()
	if err != nil {
		r.Broken(err.Error())
		return
	}
	c17Eval(r, voc, &c)
}
