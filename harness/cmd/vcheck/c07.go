package main

import (
	"bytes"
	"encoding/json"
	"fmt"
	"io"
	"strings"

	"verifharness/core"
	"verifharness/gen"
	"verifharness/mon"
	"verifharness/sched"
)

func init() {
	checks["C07"] = check{level: "exploration", run: runC07, replay: replayC07}
}

// statePrefixes drives the real scanner into each of its states.
var statePrefixes = []struct {
	State string
	Lines []string // names in mon.Alphabet
}{
	{"looking", nil},
	{"gotRoutineHeader", []string{"HDR"}},
	{"gotFunc", []string{"HDR", "FUNC"}},
	{"gotFileFunc", []string{"HDR", "FUNC", "FILE-tab"}},
	{"gotCreated", []string{"HDR", "FUNC", "FILE-tab", "CREATED"}},
	{"gotFileCreated", []string{"HDR", "FUNC", "FILE-tab", "CREATED", "FILE-tab"}},
	{"gotUnavail", []string{"HDR", "UNAVAIL"}},
	{"betweenRoutine", []string{"HDR", "FUNC", "FILE-tab", "BLANK"}},
	{"gotRaceHeader1", []string{"SEP"}},
	{"gotRaceHeader2", []string{"SEP", "WARN"}},
	{"gotRaceOperationHeader", []string{"SEP", "WARN", "OP-read"}},
	{"gotRaceOperationFunc", []string{"SEP", "WARN", "OP-read", "FUNC-indented"}},
	{"gotRaceOperationFile", []string{"SEP", "WARN", "OP-read", "FUNC-indented", "FILE-spaces"}},
	{"betweenRaceOperations", []string{"SEP", "WARN", "OP-read", "FUNC-indented", "FILE-spaces", "BLANK"}},
	{"gotRaceGoroutineHeader", []string{"SEP", "WARN", "OP-read", "FUNC-indented", "FILE-spaces", "BLANK", "GO-7"}},
	{"gotRaceGoroutineFunc", []string{"SEP", "WARN", "OP-read", "FUNC-indented", "FILE-spaces", "BLANK", "GO-7", "FUNC-indented"}},
	{"gotRaceGoroutineFile", []string{"SEP", "WARN", "OP-read", "FUNC-indented", "FILE-spaces", "BLANK", "GO-7", "FUNC-indented", "FILE-spaces"}},
	{"betweenRaceGoroutines", []string{"SEP", "WARN", "OP-read", "FUNC-indented", "FILE-spaces", "BLANK", "GO-7", "FUNC-indented", "FILE-spaces", "BLANK"}},
	// An indented dump: the same goroutine states with a two-space indentation.
	{"gotFileFunc/indented", []string{"HDR-indented", "FUNC-indented", "FILE-indented"}},
	{"betweenRoutine/indented", []string{"HDR-indented", "FUNC-indented", "FILE-indented", "BLANK"}},
}

var alphaByName = func() map[string]int {
	m := map[string]int{}
	for i, l := range mon.Alphabet {
		m[l.Name] = i
	}
	return m
}()

type seqCase struct {
	Lines        []int `json:"lines"` // indices into mon.Alphabet
	PrefixLen    int   `json:"prefix_len"`
	Unterminated bool  `json:"unterminated"` // last line has no EOL
	CRLF         bool  `json:"crlf"`
	AltEOL       bool  `json:"alt_eol,omitempty"` // odd lines end with CRLF, even ones with LF
}

func (c *seqCase) input() ([]byte, [][]byte) {
	var b bytes.Buffer
	var lines [][]byte
	eol := "\n"
	if c.CRLF {
		eol = "\r\n"
	}
	for i, li := range c.Lines {
		t := mon.Alphabet[li].Text()
		if c.AltEOL {
			eol = []string{"\n", "\r\n"}[i%2]
		}
		if !(c.Unterminated && i == len(c.Lines)-1) {
			t += eol
		}
		lines = append(lines, []byte(t))
		b.WriteString(t)
	}
	return b.Bytes(), lines
}

func (c *seqCase) names() string {
	var n []string
	for _, li := range c.Lines {
		n = append(n, mon.Alphabet[li].Name)
	}
	return strings.Join(n, " | ")
}

// seqEval runs one line-kind sequence under M-RESUME (tolerant mode) with the
// online trace checker. prop is the property the caller decides (C07: every
// clause; C02: conservation only; C03: no panic / progress only).
func seqEval(r *core.Run, c *seqCase, clauses string) {
	in, lines := c.input()
	res := resumeAll(in, plainOpts(), nil, 0, false, len(lines)+4)
	r.Eval(1)
	report := func(key, what string) {
		r.Violation(key, what+" | sequence: "+c.names(), "seq", c)
	}
	if res.Panic != nil {
		report("panic", fmt.Sprintf("panic: %v", res.Panic))
		return
	}
	if res.NoProgress || res.TooMany {
		report("no-progress", "a resumed call consumed nothing / the resume loop did not terminate")
		return
	}
	if clauses == "robust" {
		// Aggregation on every snapshot, the (expensive) HTML rendering on a
		// deterministic 1-in-24 sample of the sequences.
		html := core.Hash64(in)%24 == 0
		for _, s := range res.Snaps {
			if k, w := renderSome(s, html); k != "" {
				report(k, w)
				return
			}
		}
		return
	}
	ref := mon.NewRef()
	pos := 0
	expectOut := make([]bool, len(lines)) // true: line must appear in the output
	for i := range expectOut {
		expectOut[i] = true
	}
	var withheldHdr []int // race header lines currently withheld
	trace := clauses == "all"
	for ci := range res.Calls {
		call := &res.Calls[ci]
		ref.Reset()
		withheldHdr = nil
		sawHeader := false
		endedBy := mon.VPass
		if call.ConsErr != "" {
			report("conservation", call.ConsErr)
			return
		}
		for ei := range call.Events {
			ev := &call.Events[ei]
			if pos >= len(lines) || !bytes.Equal(ev.Line, lines[pos]) {
				report("scan-position", fmt.Sprintf("call %d scanned %q where the stream position is line %d", ci, b2s(ev.Line, 80), pos))
				return
			}
			l := mon.Alphabet[c.Lines[pos]]
			unterminated := c.Unterminated && pos == len(lines)-1
			verdict, next := ref.Step(l)
			if unterminated && ref.HandledAsLooking(l) {
				// An unterminated last line outside a dump is passed through as is.
				verdict, next = mon.VPass, "looking"
			}
			if trace {
				r.Mark("transitions", ref.State+" x "+l.Name)
			}
			stateBefore := ref.State
			if stateBefore == "gotRaceHeader1" || stateBefore == "gotRaceHeader2" {
				if verdict != mon.VConsume || !(next == "gotRaceHeader2" || next == "gotRaceOperationHeader") {
					withheldHdr = nil // released: stays expected in the output
				}
			}
			bad := ""
			switch verdict {
			case mon.VConsume:
				if !ev.Consumed || ev.After != next || ev.Err != nil {
					bad = fmt.Sprintf("want consumed -> %s", next)
				}
			case mon.VEnd:
				if ev.Consumed || ev.Err != nil || ev.After != "done" {
					bad = "want: not consumed, dump complete (done), no error"
				}
			case mon.VInvalid:
				if ev.Consumed || ev.Err == nil {
					bad = "want: not consumed, error"
				}
			case mon.VPass:
				if ev.Consumed || ev.Err != nil || ev.After != "looking" {
					bad = "want: passed through while looking"
				}
			}
			if bad != "" && trace {
				report("transition:"+stateBefore+"/"+l.Name, fmt.Sprintf("state %s, line %s %q: observed consumed=%v after=%s err=%v; %s", stateBefore, l.Name, l.Text(), ev.Consumed, ev.After, ev.Err, bad))
				return
			}
			if bad != "" {
				// Not this property's business (C02 only decides conservation):
				// follow the implementation.
				verdict = mon.VEither
			}
			if verdict == mon.VEither {
				r.Count("either_cells_hit", 1)
			}
			consumed, after := ev.Consumed, ev.After
			if consumed {
				expectOut[pos] = false
				switch after {
				case "gotRaceHeader1", "gotRaceHeader2":
					expectOut[pos] = true // only withheld; released unless a race follows
					withheldHdr = append(withheldHdr, pos)
				case "gotRaceOperationHeader":
					if stateBefore == "gotRaceHeader2" {
						for _, p := range withheldHdr {
							expectOut[p] = false // they were the header of a real report
						}
						withheldHdr = nil
					}
					sawHeader = true
				case "gotRoutineHeader":
					sawHeader = true
				}
				pos++
			} else if ev.Err == nil && after == "looking" {
				pos++ // forwarded
			} else {
				// end or invalid: the call must return now, line stays in the stream.
				endedBy = mon.VEnd
				if ev.Err != nil {
					endedBy = mon.VInvalid
				}
				if ei != len(call.Events)-1 {
					report("scan-after-end", fmt.Sprintf("call %d kept scanning after the line that ended the dump", ci))
					return
				}
				if !bytes.HasPrefix(call.Suffix, lines[pos]) {
					report("terminator-lost", fmt.Sprintf("call %d: the line that ended the dump (%q) is not at the head of the remainder %q", ci, b2s(lines[pos], 80), b2s(call.Suffix, 80)))
					return
				}
			}
			ref.Advance(l, consumed, after)
		}
		if trace {
			if sawHeader != (call.Snap != nil) {
				report("snapshot-presence", fmt.Sprintf("call %d: goroutine/operation header consumed=%v but snapshot returned=%v", ci, sawHeader, call.Snap != nil))
				return
			}
			switch endedBy {
			case mon.VEnd:
				if call.Err != nil && call.Err != io.EOF {
					report("end-error", fmt.Sprintf("call %d ended a complete dump with error %v", ci, call.Err))
					return
				}
			case mon.VInvalid:
				if call.Err == nil || call.Err == io.EOF {
					report("invalid-error", fmt.Sprintf("call %d: invalid line but err=%v", ci, call.Err))
					return
				}
			}
		}
	}
	// Conservation: every line not part of a recognised dump appears exactly
	// once, in order.
	var want bytes.Buffer
	for i, l := range lines {
		if expectOut[i] {
			want.Write(l)
		}
	}
	if !bytes.Equal(res.Out, want.Bytes()) {
		key := "conservation"
		if len(withheldHdr) > 0 && pos == len(lines) {
			var w2 bytes.Buffer
			for i, l := range lines {
				held := false
				for _, p := range withheldHdr {
					if p == i {
						held = true
					}
				}
				if expectOut[i] && !held {
					w2.Write(l)
				}
			}
			last := withheldHdr[len(withheldHdr)-1]
			if bytes.Equal(res.Out, w2.Bytes()) && last == len(lines)-1 {
				key = "eof-while-race-header-withheld"
			}
		}
		report(key, fmt.Sprintf("pass-through differs: got %q want %q", b2s(res.Out, 300), b2s(want.Bytes(), 300)))
	}
}

// seqEnumerate runs all sequences of length L over the alphabet from every state prefix.
func seqEnumerate(r *core.Run, L int, clauses string, stride int) {
	na := len(mon.Alphabet)
	total := 1
	for i := 0; i < L; i++ {
		total *= na
	}
	// Reachability of every state through the hook.
	for _, sp := range statePrefixes {
		c := &seqCase{}
		for _, n := range sp.Lines {
			c.Lines = append(c.Lines, alphaByName[n])
		}
		in, _ := c.input()
		res := scanOnce(in, plainOpts(), nil, 0)
		want := strings.Split(sp.State, "/")[0]
		got := "looking"
		if len(res.Trace) > 0 {
			got = res.Trace[len(res.Trace)-1].After
		}
		if got != want {
			r.Broken(fmt.Sprintf("state %s not reached by its canonical prefix (hook says %s)", sp.State, got))
		}
		r.Mark("states_reached", sp.State)
	}
	nsp := len(statePrefixes)
	core.Parallel(nsp*total, workers(), func(k int) {
		if stride > 1 && k%stride != int(uint64(r.Seed)%uint64(stride)) {
			return
		}
		sp := statePrefixes[k/total]
		idx := k % total
		c := &seqCase{}
		for _, n := range sp.Lines {
			c.Lines = append(c.Lines, alphaByName[n])
		}
		c.PrefixLen = len(c.Lines)
		for i := 0; i < L; i++ {
			c.Lines = append(c.Lines, idx%na)
			idx /= na
		}
		seqEval(r, c, clauses)
		nd := 1
		if mon.Alphabet[c.Lines[len(c.Lines)-1]].Text() != "" {
			c2 := *c
			c2.Unterminated = true
			seqEval(r, &c2, clauses)
			nd++
		}
		if k%97 == 0 {
			c3 := *c
			c3.CRLF = true
			seqEval(r, &c3, clauses)
			nd++
		}
		if k%7 == 3 {
			c4 := *c
			c4.AltEOL = true
			seqEval(r, &c4, clauses)
			nd++
		}
		r.DistinctN(nd)
		if k == 4321 {
			r.Sample(map[string]any{"state": sp.State, "sequence": c.names()})
		}
	})
}

// ---------------------------------------------------------------------------
// Streams of generated dumps under M-RESUME.

type streamCase struct {
	Stream *gen.Stream `json:"stream"`
	Chunk  int         `json:"chunk"`
	// EOFWithData: the reader returns io.EOF together with the last bytes.
	EOFWithData bool   `json:"eof_with_data,omitempty"`
	Input       []byte `json:"input,omitempty"`
}

// streamEval checks one stream. clauses: "all" (C07), "conservation" (C02).
func streamEval(r *core.Run, c *streamCase, clauses string) {
	in := c.Stream.Render()
	res := resumeAllSrc(&sched.Scripted{Data: in, Rest: c.Chunk, FinalWithData: c.EOFWithData}, plainOpts(), true, c.Stream.NumDumps()+8)
	r.Eval(1)
	report := func(key, what string) {
		c2 := *c
		if len(in) < 1<<16 {
			c2.Input = in
		}
		r.Violation(key, what, "stream", &c2)
	}
	if res.Panic != nil {
		report("panic", fmt.Sprintf("panic: %v", res.Panic))
		return
	}
	if res.NoProgress || res.TooMany {
		report("no-progress", "resume loop made no progress / did not terminate")
		return
	}
	want := c.Stream.PassThrough()
	for ci := range res.Calls {
		if e := res.Calls[ci].ConsErr; e != "" {
			report("conservation", fmt.Sprintf("call %d: %s", ci, e))
			return
		}
	}
	if !bytes.Equal(res.Out, want) {
		key := "conservation"
		last := res.Calls[len(res.Calls)-1]
		if n := len(last.Events); n > 0 && last.Snap == nil && last.Err == io.EOF {
			st := last.Events[n-1].After
			if (st == "gotRaceHeader1" || st == "gotRaceHeader2") && bytes.Equal(append(append([]byte{}, res.Out...), last.Withheld...), want) && len(last.Withheld) > 0 {
				key = "eof-while-race-header-withheld"
			}
		}
		report(key, fmt.Sprintf("non-dump text not conserved: got %d bytes want %d; first difference at %d: got %q want %q", len(res.Out), len(want), firstDiff(res.Out, want), b2s(tailFrom(res.Out, firstDiff(res.Out, want)), 100), b2s(tailFrom(want, firstDiff(res.Out, want)), 100)))
		return
	}
	if res.FinalErr != io.EOF {
		report("error", fmt.Sprintf("well-formed stream ends with error %v", res.FinalErr))
		return
	}
	if clauses != "all" {
		// still require one withheld span per dump
	}
	// one snapshot per dump, each equal to the ground truth, withheld bytes = the dump's span.
	var dumps []gen.Seg
	for _, sg := range c.Stream.Segs {
		if sg.Dump != nil || sg.Race != nil {
			dumps = append(dumps, sg)
		}
	}
	if len(res.Snaps) != len(dumps) {
		report("snapshot-count", fmt.Sprintf("%d snapshots for %d dumps", len(res.Snaps), len(dumps)))
		return
	}
	di := 0
	for ci := range res.Calls {
		call := &res.Calls[ci]
		if call.Snap == nil {
			if len(call.Withheld) != 0 {
				report("withheld-without-dump", fmt.Sprintf("call %d withheld %q without returning a snapshot", ci, b2s(call.Withheld, 100)))
				return
			}
			continue
		}
		sg := dumps[di]
		di++
		var span []byte
		var d string
		if sg.Dump != nil {
			span = sg.Dump.Render()
			d = mon.CompareDump(sg.Dump, call.Snap)
		} else {
			span = sg.Race.Render()
			d = mon.CompareRace(sg.Race, call.Snap)
		}
		if d != "" && clauses == "all" {
			report("snapshot-in-stream:"+diffKey(d), fmt.Sprintf("dump %d in the stream differs from the dump alone: %s", di-1, d))
			return
		}
		if !bytes.Equal(call.Withheld, span) {
			report("withheld-span", fmt.Sprintf("dump %d: withheld bytes are not exactly the dump (withheld %d bytes, dump %d bytes; first difference at %d)", di-1, len(call.Withheld), len(span), firstDiff(call.Withheld, span)))
			return
		}
		if hw := hookWithheld(call); !bytes.Equal(hw, call.Withheld) {
			report("hook-accounting", fmt.Sprintf("dump %d: lines reported consumed by the scanner (%d bytes) differ from the bytes withheld (%d bytes)", di-1, len(hw), len(call.Withheld)))
			return
		}
		if clauses == "all" {
			// Scanning that dump alone yields the same snapshot.
			alone, _, _, _ := scanAll(span, plainOpts())
			if dd := mon.DiffSnapshot(alone, call.Snap, mon.EqOpt{}); dd != "" {
				report("alone-vs-stream", fmt.Sprintf("dump %d: %s", di-1, dd))
				return
			}
		}
	}
}

func firstDiff(a, b []byte) int {
	n := len(a)
	if len(b) < n {
		n = len(b)
	}
	for i := 0; i < n; i++ {
		if a[i] != b[i] {
			return i
		}
	}
	return n
}

func tailFrom(b []byte, i int) []byte {
	if i > len(b) {
		i = len(b)
	}
	return b[i:]
}

func genStreamCase(r *core.Run, sub uint64, i int) *streamCase {
	rr := core.NewRand(r.Seed, sub, uint64(i))
	cfg := &gen.StreamCfg{MaxDumps: 5, RaceChance: 3, NoFinalEOLChance: 2,
		Junk:    gen.JunkCfg{Separators: true, Long: i%9 == 0, Binary: true, MixedEOL: i%6 == 1, StrayCR: i%3 == 0},
		DumpCfg: gen.Cfg{MaxG: 4, MaxFrames: 6, MaxDepth: 3, LongLines: i%31 == 0}}
	c := &streamCase{Stream: gen.GenStream(rr, cfg)}
	switch i % 5 {
	case 0:
		c.Chunk = 1 + rr.Intn(64)
	case 1:
		c.Chunk = 1
	}
	if i%31 == 0 || i%9 == 0 {
		if c.Chunk == 1 {
			c.Chunk = 37
		}
	}
	c.EOFWithData = i%4 == 2
	if i%8 == 3 {
		alignStream(c.Stream, rr)
	}
	return c
}

func runC07(r *core.Run) {
	r.Rule("(a) every sequence of L lines over a 28-text alphabet of line kinds, appended to a canonical prefix that drives the real scanner into each of its states (reachability confirmed through the scan hook), " +
		"each also with an unterminated last line; every scan-hook transition compared online with the reference line automaton (DESIGN appendix A), every call boundary with the resume protocol; " +
		"(b) generated streams T0 D1 T1 .. Dk Tk (goroutine dumps and race reports in junk) under the resume protocol: one snapshot per dump, equal to ground truth and to the dump scanned alone, withheld bytes = the dump's span. " +
		"(c) the pp binary on generated multi-dump streams: stdout = the stream with each dump replaced by what pp prints for that dump alone. " +
		"distinct: sequences are distinct by construction, streams by hash; non-trivial: sequence leaves state looking / stream has >= 1 dump")
	r.Assume("reference automaton = DESIGN.md appendix A (cells marked either are not decided)", "line roles are fixed by the generator's construction, not by panicparse's regexps")
	L := r.N(3, 4)
	seqEnumerate(r, L, "all", r.N(1, 1))
	r.Exhaustive(true)
	r.Set("sequence_length", L)
	r.Set("alphabet", len(mon.Alphabet))
	n := r.N(4000, 150000)
	core.Parallel(n, workers(), func(i int) {
		c := genStreamCase(r, 7, i)
		streamEval(r, c, "all")
		if c.Stream.NumDumps() > 0 {
			r.Distinct(core.Hash64(c.Stream.Render()))
		}
		r.Count("stream_dumps", c.Stream.NumDumps())
		if i < 2 {
			r.Sample(map[string]any{"stream": b2s(c.Stream.Render(), 1500), "dumps": c.Stream.NumDumps()})
		}
	})
	r.Count("streams", n)
	// (c) the CLI drives the same resume protocol (internal/main.go): its output on a stream of several dumps is
	// the stream with each dump replaced by its rendering - no position skipped or rendered twice, also when the
	// line that ends the last dump is the unterminated last line of the input.
	nc := r.N(80, 2500)
	core.Parallel(nc, workers(), func(i int) {
		rr := core.NewRand(r.Seed, 77, uint64(i))
		cfg := &gen.StreamCfg{MaxDumps: 4, RaceChance: 3, NoFinalEOLChance: 2,
			Junk:    gen.JunkCfg{Separators: i%3 == 0, Long: i%13 == 0},
			DumpCfg: gen.Cfg{MaxG: 3, MaxFrames: 4, MaxDepth: 2}}
		c := &cliStreamCase{Stream: gen.GenStream(rr, cfg), FileArg: i%4 == 3}
		cliStreamEval(r, c)
		r.Count("cli_streams", 1)
	})
}

func replayC07(r *core.Run, kind string, raw json.RawMessage) {
	if kind == "clistream" {
		var c cliStreamCase
		if err := json.Unmarshal(raw, &c); err != nil {
			r.Broken(err.Error())
			return
		}
		cliStreamEval(r, &c)
		return
	}
	replaySeqOrStream(r, kind, raw, "all")
}

func replaySeqOrStream(r *core.Run, kind string, raw json.RawMessage, clauses string) {
	switch kind {
	case "seq":
		var c seqCase
		if err := json.Unmarshal(raw, &c); err != nil {
			r.Broken(err.Error())
			return
		}
		seqEval(r, &c, clauses)
	case "stream":
		var c streamCase
		if err := json.Unmarshal(raw, &c); err != nil {
			r.Broken(err.Error())
			return
		}
		streamEval(r, &c, clauses)
	}
}

// alignStream pads the first text segment so that the first dump of the stream ends exactly at (or one byte
// around) a multiple of the scanner's 16 KiB buffer: the read-ahead is then empty at the very moment a dump ends.
func alignStream(st *gen.Stream, rr *core.Rand) {
	off := 0
	for i := range st.Segs {
		sg := &st.Segs[i]
		var n int
		switch {
		case sg.Dump != nil:
			n = len(sg.Dump.Render())
		case sg.Race != nil:
			n = len(sg.Race.Render())
		default:
			off += len(sg.Text)
			continue
		}
		end := off + n
		target := ((end / 16384) + 1) * 16384
		target += []int{0, 0, 0, -1, 1}[rr.Intn(5)]
		pad := target - end
		if pad < 2 {
			pad += 16384
		}
		filler := strings.Repeat("p", pad-1) + "\n"
		if pad > 200 {
			filler = ""
			for pad > 0 {
				k := 100
				if pad < 200 {
					k = pad
				}
				filler += strings.Repeat("p", k-1) + "\n"
				pad -= k
			}
		}
		st.Segs = append([]gen.Seg{{Text: gen.BinStr(filler)}}, st.Segs...)
		gen.Normalize(st)
		// merge with a following text segment if any
		if len(st.Segs) > 1 && st.Segs[1].Dump == nil && st.Segs[1].Race == nil {
			st.Segs[1].Text = st.Segs[0].Text + st.Segs[1].Text
			st.Segs = st.Segs[1:]
		}
		return
	}
}
