package mon

// Reference line automaton (DESIGN.md appendix A), written from the state
// enum documentation, the Go runtime / tsan output formats and the property
// text - not from scan()'s code. It is executable: given the *role* of each
// line (fixed by construction by the generator, never by panicparse's
// regexps) it says for every line whether it is consumed and what the next
// state is, or that the cell is unspecified ("either").

import "strings"

// Core is the role of a line's body.
type Core int

// Line roles.
const (
	KHdr Core = iota
	KFunc
	KFuncBad
	KFile
	KCreated
	KBlank
	KElided
	KUnavail
	KSep
	KWarn
	KOp
	KPrev
	KGo // creation header; ID says which goroutine
	KOther
)

var coreNames = [...]string{"HDR", "FUNC", "FUNC!", "FILE", "CREATED", "BLANK", "ELIDED", "UNAVAIL", "SEP", "WARN", "OP", "PREV", "GO", "OTHER"}

func (c Core) String() string { return coreNames[c] }

// LineText is one concrete line of the G-LINES alphabet.
type LineText struct {
	Lead string // leading whitespace
	Core Core
	Body string // text after the leading whitespace, without EOL
	ID   int    // goroutine id for OP / PREV / GO lines
	Name string // label used in evidence
}

// Text returns the line without EOL.
func (l LineText) Text() string { return l.Lead + l.Body }

// Alphabet is the G-LINES alphabet.
var Alphabet = []LineText{
	{"", KHdr, "goroutine 7 [running]:", 7, "HDR"},
	{"", KHdr, "goroutine 8 gp=0xc0000061c0 m=0 mp=0x56e3c0 [chan receive, 5 minutes, locked to thread]:", 8, "HDR-annot"},
	{"  ", KHdr, "goroutine 9 [select]:", 9, "HDR-indented"},
	{"", KFunc, "main.f(0x1, {0x2, 0x3}, ...)", 0, "FUNC"},
	{"  ", KFunc, "main.g()", 0, "FUNC-indented"},
	{"", KFuncBad, "main.f(0x1, zz)", 0, "FUNC!args"},
	{"", KFuncBad, "main.f({0x1)", 0, "FUNC!brace"},
	{"\t", KFile, "/tmp/x.go:12 +0x1d", 0, "FILE-tab"},
	{"      ", KFile, "/tmp/y.go:3", 0, "FILE-spaces"},
	{"  \t", KFile, "/tmp/z.go:5 +0x2 fp=0xc000 sp=0xc000 pc=0x4000", 0, "FILE-indented"},
	{"", KCreated, "created by main.h", 0, "CREATED"},
	{"", KCreated, "created by main.h in goroutine 1", 0, "CREATED-in"},
	{"  ", KCreated, "created by main.h", 0, "CREATED-indented"},
	{"", KBlank, "", 0, "BLANK"},
	{"", KElided, "...additional frames elided...", 0, "ELIDED-old"},
	{"", KElided, "...3 frames elided...", 0, "ELIDED-new"},
	{"\t", KUnavail, "goroutine running on other thread; stack unavailable", 0, "UNAVAIL"},
	{"", KSep, "==================", 0, "SEP"},
	{"", KWarn, "WARNING: DATA RACE", 0, "WARN"},
	{"", KOp, "Read at 0x00c000012340 by goroutine 7:", 7, "OP-read"},
	{"", KOp, "Write at 0x00c000012340 by goroutine 7:", 7, "OP-write"},
	{"", KPrev, "Previous write at 0x00c000012340 by goroutine 6:", 6, "PREV"},
	{"", KGo, "Goroutine 7 (running) created at:", 7, "GO-7"},
	{"", KGo, "Goroutine 6 (finished) created at:", 6, "GO-6"},
	{"", KGo, "Goroutine 99 (finished) created at:", 99, "GO-unknown"},
	{"", KOther, "2026/10/02 some log line", 0, "OTHER-log"},
	{"", KOther, "panic: boom", 0, "OTHER-panic"},
	{"  ", KOther, "indented junk", 0, "OTHER-indented"},
}

// Verdict of the reference for one line.
type Verdict int

// Verdicts.
const (
	VConsume Verdict = iota // line is part of the dump, next state given
	VEnd                    // line not consumed, snapshot complete, no error
	VInvalid                // line not consumed, error
	VPass                   // line forwarded, state stays looking
	VEither                 // unspecified cell: follow the implementation
)

func (v Verdict) String() string {
	return [...]string{"consume", "end", "invalid", "pass", "either"}[v]
}

// Ref is the reference automaton's state.
type Ref struct {
	State  string
	Indent string
	Known  map[int]bool // goroutine ids of the race operations seen
	// Withheld counts race header lines currently withheld (gotRaceHeader1/2).
	Withheld int
}

// NewRef returns the automaton in state looking.
func NewRef() *Ref { return &Ref{State: "looking", Known: map[int]bool{}} }

// Reset puts the automaton back to looking (new ScanSnapshot call).
func (r *Ref) Reset() {
	r.State, r.Indent, r.Withheld = "looking", "", 0
	r.Known = map[int]bool{}
}

// goroutineRole maps a line to its role in the goroutine grammar given the
// dump's indentation; inconsistent reports a non-blank line that does not
// carry the indentation.
func goroutineRole(l LineText, indent string) (role Core, indentedHdr, inconsistent bool) {
	if l.Core == KBlank {
		return KBlank, false, false
	}
	if !strings.HasPrefix(l.Lead, indent) {
		return KOther, false, true
	}
	lead := l.Lead[len(indent):]
	switch l.Core {
	case KHdr:
		return KHdr, lead != "", false
	case KFunc, KFuncBad:
		return l.Core, false, false
	case KFile, KUnavail:
		if lead == "" {
			return KOther, false, false
		}
		return l.Core, false, false
	case KCreated, KElided:
		if lead != "" {
			return KOther, false, false
		}
		return l.Core, false, false
	}
	return KOther, false, false
}

// raceRole maps a line to its role in the race grammar.
func raceRole(l LineText) Core {
	switch l.Core {
	case KBlank:
		return KBlank
	case KFunc, KFuncBad:
		return l.Core
	case KFile:
		if l.Lead == "" {
			return KOther
		}
		return KFile
	case KSep, KWarn, KOp, KPrev, KGo:
		if l.Lead != "" {
			return KOther
		}
		return l.Core
	}
	return KOther
}

// Step returns the reference verdict for line l in the current state and,
// for VConsume, the next state. It does not advance; call Advance with what
// was decided (or observed, for VEither).
func (r *Ref) Step(l LineText) (Verdict, string) {
	switch r.State {
	case "looking":
		return r.stepLooking(l)
	case "gotRaceHeader1":
		if raceRole(l) == KWarn {
			return VConsume, "gotRaceHeader2"
		}
		// The withheld separator is released; the line is handled as when looking.
		return r.stepLooking(l)
	case "gotRaceHeader2":
		if raceRole(l) == KOp {
			return VConsume, "gotRaceOperationHeader"
		}
		// Not a race after all: both withheld lines are released and the line is
		// handled as when looking.
		return r.stepLooking(l)
	}
	if strings.Contains(r.State, "Race") {
		return r.stepRace(l)
	}
	role, indHdr, incons := goroutineRole(l, r.Indent)
	must := r.State == "gotRoutineHeader" || r.State == "gotFunc" || r.State == "gotCreated" || r.State == "gotUnavail"
	if incons {
		if must {
			return VInvalid, ""
		}
		return VEither, ""
	}
	switch r.State {
	case "gotRoutineHeader":
		switch role {
		case KFunc:
			return VConsume, "gotFunc"
		case KUnavail:
			return VConsume, "gotUnavail"
		}
		return VInvalid, ""
	case "gotFunc":
		if role == KFile {
			return VConsume, "gotFileFunc"
		}
		return VInvalid, ""
	case "gotFileFunc":
		switch role {
		case KFunc:
			return VConsume, "gotFunc"
		case KCreated:
			return VConsume, "gotCreated"
		case KElided:
			return VConsume, "gotFileFunc"
		case KBlank:
			return VConsume, "betweenRoutine"
		case KFuncBad:
			return VInvalid, ""
		}
		return VEnd, ""
	case "gotCreated":
		if role == KFile {
			return VConsume, "gotFileCreated"
		}
		return VInvalid, ""
	case "gotFileCreated":
		if role == KBlank {
			return VConsume, "betweenRoutine"
		}
		return VEnd, ""
	case "gotUnavail":
		switch role {
		case KBlank:
			return VConsume, "betweenRoutine"
		case KCreated:
			return VConsume, "gotCreated"
		}
		return VInvalid, ""
	case "betweenRoutine":
		if role == KHdr {
			if indHdr {
				return VEither, ""
			}
			return VConsume, "gotRoutineHeader"
		}
		return VEnd, ""
	}
	return VEither, ""
}

func (r *Ref) stepLooking(l LineText) (Verdict, string) {
	if l.Core == KHdr {
		return VConsume, "gotRoutineHeader"
	}
	if l.Core == KSep && l.Lead == "" {
		return VConsume, "gotRaceHeader1"
	}
	return VPass, "looking"
}

func (r *Ref) stepRace(l LineText) (Verdict, string) {
	role := raceRole(l)
	switch r.State {
	case "gotRaceOperationHeader":
		if role == KFunc {
			return VConsume, "gotRaceOperationFunc"
		}
	case "gotRaceOperationFunc":
		if role == KFile {
			return VConsume, "gotRaceOperationFile"
		}
	case "gotRaceOperationFile":
		switch role {
		case KFunc:
			return VConsume, "gotRaceOperationFunc"
		case KBlank:
			return VConsume, "betweenRaceOperations"
		case KSep:
			return VConsume, "done"
		}
	case "betweenRaceOperations":
		switch role {
		case KPrev:
			return VConsume, "gotRaceOperationHeader"
		case KGo:
			if r.Known[l.ID] {
				return VConsume, "gotRaceGoroutineHeader"
			}
		}
	case "gotRaceGoroutineHeader":
		if role == KFunc {
			return VConsume, "gotRaceGoroutineFunc"
		}
	case "gotRaceGoroutineFunc":
		if role == KFile {
			return VConsume, "gotRaceGoroutineFile"
		}
	case "gotRaceGoroutineFile":
		switch role {
		case KFunc:
			return VConsume, "gotRaceGoroutineFunc"
		case KBlank:
			return VConsume, "betweenRaceGoroutines"
		case KSep:
			return VConsume, "done"
		}
	case "betweenRaceGoroutines":
		if role == KGo && r.Known[l.ID] {
			return VConsume, "gotRaceGoroutineHeader"
		}
	}
	return VInvalid, ""
}

// Advance moves the automaton: consumed + next as decided or observed.
func (r *Ref) Advance(l LineText, consumed bool, next string) {
	if consumed {
		switch next {
		case "gotRoutineHeader":
			if r.State == "looking" || r.State == "gotRaceHeader1" || r.State == "gotRaceHeader2" {
				r.Indent = l.Lead
			}
		case "gotRaceOperationHeader":
			r.Known[l.ID] = true
		}
	}
	r.State = next
}

// HandledAsLooking tells whether line l in the current state is treated as
// if the scanner were looking (no dump in progress).
func (r *Ref) HandledAsLooking(l LineText) bool {
	switch r.State {
	case "looking":
		return true
	case "gotRaceHeader1":
		return raceRole(l) != KWarn
	case "gotRaceHeader2":
		return raceRole(l) != KOp
	}
	return false
}
