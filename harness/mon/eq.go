// Package mon holds the monitors / oracles shared by the checks.
package mon

import (
	"fmt"
	"strings"

	"github.com/maruel/panicparse/v2/stack"

	"verifharness/gen"
)

// PtrLike is the property's definition of pointer-likeness: it depends only
// on the value (512 KiB < v < 2^63-1).
func PtrLike(v uint64) bool { return v > 512*1024 && v < (1<<63)-1 }

func srcName(p string) string {
	if i := strings.LastIndexByte(p, '/'); i >= 0 {
		return p[i+1:]
	}
	return ""
}

func dirSrc(p string) string {
	i := strings.LastIndexByte(p, '/')
	if i < 0 {
		return ""
	}
	j := strings.LastIndexByte(p[:i], '/')
	if j < 0 {
		return ""
	}
	return p[j+1:]
}

func cmpArgs(path string, want *gen.Args, got *stack.Args) string {
	if len(want.Vals) != len(got.Values) {
		return fmt.Sprintf("%s: %d values, want %d", path, len(got.Values), len(want.Vals))
	}
	if want.Elided != got.Elided {
		return fmt.Sprintf("%s.Elided=%v want %v", path, got.Elided, want.Elided)
	}
	for i := range want.Vals {
		if d := cmpArg(fmt.Sprintf("%s[%d]", path, i), &want.Vals[i], &got.Values[i]); d != "" {
			return d
		}
	}
	return ""
}

func cmpArg(path string, w *gen.Arg, g *stack.Arg) string {
	if w.Agg != g.IsAggregate {
		return fmt.Sprintf("%s.IsAggregate=%v want %v", path, g.IsAggregate, w.Agg)
	}
	if w.Agg {
		return cmpArgs(path+".Fields", &gen.Args{Vals: w.Fields, Elided: w.Elided}, &g.Fields)
	}
	if w.TooLarge != g.IsOffsetTooLarge {
		return fmt.Sprintf("%s.IsOffsetTooLarge=%v want %v", path, g.IsOffsetTooLarge, w.TooLarge)
	}
	if w.TooLarge {
		if g.Value != 0 || g.IsPtr || g.IsInaccurate {
			return fmt.Sprintf("%s: '_' argument carries value %#x ptr=%v inaccurate=%v", path, g.Value, g.IsPtr, g.IsInaccurate)
		}
		return ""
	}
	if w.Value != g.Value {
		return fmt.Sprintf("%s.Value=%#x want %#x", path, g.Value, w.Value)
	}
	if w.Inaccurate != g.IsInaccurate {
		return fmt.Sprintf("%s.IsInaccurate=%v want %v", path, g.IsInaccurate, w.Inaccurate)
	}
	if g.IsPtr != PtrLike(g.Value) {
		return fmt.Sprintf("%s.IsPtr=%v for value %#x (pointer-likeness must depend only on the value)", path, g.IsPtr, g.Value)
	}
	if len(g.Fields.Values) != 0 {
		return path + ": scalar with fields"
	}
	return ""
}

func cmpFunc(path string, w *gen.Sym, g *stack.Func, creatorParent int) string {
	wantPkg := w.Pkg
	if w.NoDot {
		wantPkg = ""
	}
	if g.ImportPath != wantPkg {
		return fmt.Sprintf("%s.Func.ImportPath=%q want %q", path, g.ImportPath, wantPkg)
	}
	if g.Name != w.Name {
		return fmt.Sprintf("%s.Func.Name=%q want %q", path, g.Name, w.Name)
	}
	if g.DirName != w.DirName() {
		return fmt.Sprintf("%s.Func.DirName=%q want %q", path, g.DirName, w.DirName())
	}
	c := w.Complete()
	if g.Complete != c && !(creatorParent != 0 && g.Complete == fmt.Sprintf("%s in goroutine %d", c, creatorParent)) {
		return fmt.Sprintf("%s.Func.Complete=%q want %q", path, g.Complete, c)
	}
	if g.IsPkgMain != (wantPkg == "main") {
		return fmt.Sprintf("%s.Func.IsPkgMain=%v for package %q", path, g.IsPkgMain, wantPkg)
	}
	return ""
}

func cmpFile(path, file string, line int, g *stack.Call) string {
	if g.RemoteSrcPath != file {
		return fmt.Sprintf("%s.RemoteSrcPath=%q want %q", path, g.RemoteSrcPath, file)
	}
	if g.Line != line {
		return fmt.Sprintf("%s.Line=%d want %d", path, g.Line, line)
	}
	if g.SrcName != srcName(file) {
		return fmt.Sprintf("%s.SrcName=%q want %q", path, g.SrcName, srcName(file))
	}
	if g.DirSrc != dirSrc(file) {
		return fmt.Sprintf("%s.DirSrc=%q want %q", path, g.DirSrc, dirSrc(file))
	}
	return ""
}

// CompareGoroutine checks one parsed goroutine against the abstract one it
// was printed from. createdIn tells whether the parent id was printed.
func CompareGoroutine(path string, w *gen.Goroutine, g *stack.Goroutine, first bool, createdIn bool) string {
	if g.ID != w.ID {
		return fmt.Sprintf("%s.ID=%d want %d", path, g.ID, w.ID)
	}
	if g.First != first {
		return fmt.Sprintf("%s.First=%v want %v", path, g.First, first)
	}
	if g.State != w.State {
		return fmt.Sprintf("%s.State=%q want %q", path, g.State, w.State)
	}
	if g.SleepMin != w.Minutes || g.SleepMax != w.Minutes {
		return fmt.Sprintf("%s.Sleep=%d..%d want %d", path, g.SleepMin, g.SleepMax, w.Minutes)
	}
	if g.Locked != w.Locked {
		return fmt.Sprintf("%s.Locked=%v want %v", path, g.Locked, w.Locked)
	}
	if g.RaceAddr != 0 || g.RaceWrite {
		return fmt.Sprintf("%s: race fields set on a goroutine dump", path)
	}
	if w.Unavailable {
		if len(g.Stack.Calls) != 1 || g.Stack.Calls[0].RemoteSrcPath != "<unavailable>" || g.Stack.Calls[0].Func.Complete != "" {
			return fmt.Sprintf("%s.Stack: unavailable stack parsed as %d calls", path, len(g.Stack.Calls))
		}
	} else {
		if len(g.Stack.Calls) != len(w.Frames) {
			return fmt.Sprintf("%s.Stack: %d calls want %d", path, len(g.Stack.Calls), len(w.Frames))
		}
		for i := range w.Frames {
			p := fmt.Sprintf("%s.Stack.Calls[%d]", path, i)
			wf, gc := &w.Frames[i], &g.Stack.Calls[i]
			if d := cmpFunc(p, &wf.Sym, &gc.Func, 0); d != "" {
				return d
			}
			if d := cmpFile(p, wf.File, wf.Line, gc); d != "" {
				return d
			}
			if d := cmpArgs(p+".Args", &wf.Args, &gc.Args); d != "" {
				return d
			}
		}
	}
	if g.Stack.Elided != (w.ElidedAfter > 0) {
		return fmt.Sprintf("%s.Stack.Elided=%v want %v", path, g.Stack.Elided, w.ElidedAfter > 0)
	}
	if w.Creator == nil {
		if len(g.CreatedBy.Calls) != 0 {
			return fmt.Sprintf("%s.CreatedBy invented (%d calls)", path, len(g.CreatedBy.Calls))
		}
		return ""
	}
	if len(g.CreatedBy.Calls) != 1 {
		return fmt.Sprintf("%s.CreatedBy: %d calls want 1", path, len(g.CreatedBy.Calls))
	}
	parent := 0
	if createdIn {
		parent = w.Creator.Parent
	}
	p := path + ".CreatedBy.Calls[0]"
	if d := cmpFunc(p, &w.Creator.Sym, &g.CreatedBy.Calls[0].Func, parent); d != "" {
		return d
	}
	if d := cmpFile(p, w.Creator.File, w.Creator.Line, &g.CreatedBy.Calls[0]); d != "" {
		return d
	}
	if len(g.CreatedBy.Calls[0].Args.Values) != 0 {
		return p + ": creator with arguments"
	}
	return ""
}

// CompareDump checks a parsed snapshot against the abstract dump: exactly
// those goroutines, in printed order.
func CompareDump(w *gen.Dump, s *stack.Snapshot) string {
	if s == nil {
		return "no snapshot returned for a dump"
	}
	if len(s.Goroutines) != len(w.Gs) {
		return fmt.Sprintf("%d goroutines parsed, %d printed", len(s.Goroutines), len(w.Gs))
	}
	for i := range w.Gs {
		if d := CompareGoroutine(fmt.Sprintf("G[%d]", i), &w.Gs[i], s.Goroutines[i], i == 0, w.F.CreatedIn); d != "" {
			return d
		}
	}
	if s.IsRace() {
		return "goroutine dump reported as race"
	}
	return ""
}

// EqOpt selects what a snapshot comparison ignores.
type EqOpt struct {
	IgnoreNames     bool
	IgnoreProcessed bool
	IgnoreLocal     bool // LocalSrcPath/RelSrcPath/ImportPath/Location
}

func diffArgs(path string, a, b *stack.Args, o EqOpt) string {
	if len(a.Values) != len(b.Values) {
		return fmt.Sprintf("%s: %d vs %d values", path, len(a.Values), len(b.Values))
	}
	if a.Elided != b.Elided {
		return path + ".Elided differs"
	}
	if !o.IgnoreProcessed {
		if len(a.Processed) != len(b.Processed) {
			return fmt.Sprintf("%s.Processed: %q vs %q", path, a.Processed, b.Processed)
		}
		for i := range a.Processed {
			if a.Processed[i] != b.Processed[i] {
				return fmt.Sprintf("%s.Processed[%d]: %q vs %q", path, i, a.Processed[i], b.Processed[i])
			}
		}
	}
	for i := range a.Values {
		x, y := &a.Values[i], &b.Values[i]
		p := fmt.Sprintf("%s[%d]", path, i)
		if x.IsAggregate != y.IsAggregate || x.Value != y.Value || x.IsPtr != y.IsPtr || x.IsOffsetTooLarge != y.IsOffsetTooLarge || x.IsInaccurate != y.IsInaccurate {
			return fmt.Sprintf("%s: %+v vs %+v", p, *x, *y)
		}
		if !o.IgnoreNames && x.Name != y.Name {
			return fmt.Sprintf("%s.Name: %q vs %q", p, x.Name, y.Name)
		}
		if d := diffArgs(p+".Fields", &x.Fields, &y.Fields, o); d != "" {
			return d
		}
	}
	return ""
}

func diffCall(path string, a, b *stack.Call, o EqOpt) string {
	if a.Func != b.Func {
		return fmt.Sprintf("%s.Func: %+v vs %+v", path, a.Func, b.Func)
	}
	if a.RemoteSrcPath != b.RemoteSrcPath || a.Line != b.Line || a.SrcName != b.SrcName || a.DirSrc != b.DirSrc {
		return fmt.Sprintf("%s: %s:%d (%s,%s) vs %s:%d (%s,%s)", path, a.RemoteSrcPath, a.Line, a.SrcName, a.DirSrc, b.RemoteSrcPath, b.Line, b.SrcName, b.DirSrc)
	}
	if !o.IgnoreLocal {
		if a.LocalSrcPath != b.LocalSrcPath || a.RelSrcPath != b.RelSrcPath || a.ImportPath != b.ImportPath || a.Location != b.Location {
			return fmt.Sprintf("%s: local (%q,%q,%q,%v) vs (%q,%q,%q,%v)", path, a.LocalSrcPath, a.RelSrcPath, a.ImportPath, a.Location, b.LocalSrcPath, b.RelSrcPath, b.ImportPath, b.Location)
		}
	}
	return diffArgs(path+".Args", &a.Args, &b.Args, o)
}

func diffStack(path string, a, b *stack.Stack, o EqOpt) string {
	if len(a.Calls) != len(b.Calls) {
		return fmt.Sprintf("%s: %d vs %d calls", path, len(a.Calls), len(b.Calls))
	}
	if a.Elided != b.Elided {
		return path + ".Elided differs"
	}
	for i := range a.Calls {
		if d := diffCall(fmt.Sprintf("%s.Calls[%d]", path, i), &a.Calls[i], &b.Calls[i], o); d != "" {
			return d
		}
	}
	return ""
}

// DiffSignature compares two signatures.
func DiffSignature(path string, a, b *stack.Signature, o EqOpt) string {
	if a.State != b.State || a.SleepMin != b.SleepMin || a.SleepMax != b.SleepMax || a.Locked != b.Locked {
		return fmt.Sprintf("%s: (%q,%d,%d,%v) vs (%q,%d,%d,%v)", path, a.State, a.SleepMin, a.SleepMax, a.Locked, b.State, b.SleepMin, b.SleepMax, b.Locked)
	}
	if d := diffStack(path+".CreatedBy", &a.CreatedBy, &b.CreatedBy, o); d != "" {
		return d
	}
	return diffStack(path+".Stack", &a.Stack, &b.Stack, o)
}

// DiffGoroutine compares two goroutines.
func DiffGoroutine(path string, a, b *stack.Goroutine, o EqOpt) string {
	if a.ID != b.ID || a.First != b.First || a.RaceWrite != b.RaceWrite || a.RaceAddr != b.RaceAddr {
		return fmt.Sprintf("%s: id/first/race (%d,%v,%v,%#x) vs (%d,%v,%v,%#x)", path, a.ID, a.First, a.RaceWrite, a.RaceAddr, b.ID, b.First, b.RaceWrite, b.RaceAddr)
	}
	return DiffSignature(path, &a.Signature, &b.Signature, o)
}

// DiffSnapshot compares two snapshots (nil-aware).
func DiffSnapshot(a, b *stack.Snapshot, o EqOpt) string {
	if (a == nil) != (b == nil) {
		return fmt.Sprintf("snapshot nil-ness differs: %v vs %v", a == nil, b == nil)
	}
	if a == nil {
		return ""
	}
	if len(a.Goroutines) != len(b.Goroutines) {
		return fmt.Sprintf("%d vs %d goroutines", len(a.Goroutines), len(b.Goroutines))
	}
	for i := range a.Goroutines {
		if d := DiffGoroutine(fmt.Sprintf("G[%d]", i), a.Goroutines[i], b.Goroutines[i], o); d != "" {
			return d
		}
	}
	if !o.IgnoreLocal {
		if a.RemoteGOROOT != b.RemoteGOROOT || fmt.Sprint(a.RemoteGOPATHs) != fmt.Sprint(b.RemoteGOPATHs) || fmt.Sprint(a.LocalGomods) != fmt.Sprint(b.LocalGomods) {
			return fmt.Sprintf("roots differ: %q %v %v vs %q %v %v", a.RemoteGOROOT, a.RemoteGOPATHs, a.LocalGomods, b.RemoteGOROOT, b.RemoteGOPATHs, b.LocalGomods)
		}
	}
	return ""
}

// DiffAggregated compares two aggregations bucket by bucket, in order.
func DiffAggregated(a, b *stack.Aggregated, o EqOpt) string {
	if len(a.Buckets) != len(b.Buckets) {
		return fmt.Sprintf("%d vs %d buckets", len(a.Buckets), len(b.Buckets))
	}
	for i := range a.Buckets {
		x, y := a.Buckets[i], b.Buckets[i]
		if fmt.Sprint(x.IDs) != fmt.Sprint(y.IDs) || x.First != y.First {
			return fmt.Sprintf("bucket %d: ids %v first=%v vs ids %v first=%v", i, x.IDs, x.First, y.IDs, y.First)
		}
		if d := DiffSignature(fmt.Sprintf("B[%d]", i), &x.Signature, &y.Signature, o); d != "" {
			return d
		}
	}
	return ""
}

// ErrStr renders an error for comparison.
func ErrStr(err error) string {
	if err == nil {
		return "<nil>"
	}
	return err.Error()
}

func cmpRaceFrames(path string, want []gen.Frame, got []stack.Call, withArgs bool) string {
	if len(want) != len(got) {
		return fmt.Sprintf("%s: %d calls want %d", path, len(got), len(want))
	}
	for i := range want {
		p := fmt.Sprintf("%s.Calls[%d]", path, i)
		if d := cmpFunc(p, &want[i].Sym, &got[i].Func, 0); d != "" {
			return d
		}
		if d := cmpFile(p, want[i].File, want[i].Line, &got[i]); d != "" {
			return d
		}
		a := want[i].Args
		if !withArgs {
			a = gen.Args{}
		}
		if d := cmpArgs(p+".Args", &a, &got[i].Args); d != "" {
			return d
		}
	}
	return ""
}

// CompareRace checks a parsed snapshot against the abstract race report.
func CompareRace(w *gen.Race, s *stack.Snapshot) string {
	if s == nil {
		return "no snapshot returned for a race report"
	}
	if len(s.Goroutines) != len(w.Ops) {
		return fmt.Sprintf("%d goroutines parsed, %d operations printed", len(s.Goroutines), len(w.Ops))
	}
	if !s.IsRace() {
		return "IsRace()=false for a race report"
	}
	cr := map[int]*gen.RaceCreate{}
	for i := range w.Creates {
		cr[w.Creates[i].GID] = &w.Creates[i]
	}
	for i := range w.Ops {
		op, g := &w.Ops[i], s.Goroutines[i]
		p := fmt.Sprintf("G[%d]", i)
		if g.ID != op.GID {
			return fmt.Sprintf("%s.ID=%d want %d", p, g.ID, op.GID)
		}
		if g.RaceAddr != op.Addr {
			return fmt.Sprintf("%s.RaceAddr=%#x want %#x", p, g.RaceAddr, op.Addr)
		}
		if g.RaceWrite != op.Write {
			return fmt.Sprintf("%s.RaceWrite=%v want %v", p, g.RaceWrite, op.Write)
		}
		if g.First != (i == 0) {
			return fmt.Sprintf("%s.First=%v", p, g.First)
		}
		if g.SleepMin != 0 || g.SleepMax != 0 || g.Locked {
			return p + ": sleep/lock set on a race goroutine"
		}
		if d := cmpRaceFrames(p+".Stack", op.Frames, g.Stack.Calls, w.WithArgs); d != "" {
			return d
		}
		if g.Stack.Elided {
			return p + ".Stack.Elided set"
		}
		c := cr[op.GID]
		if c == nil {
			if g.State != "" || len(g.CreatedBy.Calls) != 0 {
				return fmt.Sprintf("%s: goroutine without creation section has state %q and %d creation calls", p, g.State, len(g.CreatedBy.Calls))
			}
			continue
		}
		st := "finished"
		if c.Running {
			st = "running"
		}
		if g.State != st {
			return fmt.Sprintf("%s.State=%q want %q", p, g.State, st)
		}
		if d := cmpRaceFrames(p+".CreatedBy", c.Frames, g.CreatedBy.Calls, w.WithArgs); d != "" {
			return d
		}
	}
	return ""
}
