package mon

import (
	"fmt"
	"sort"
	"strings"

	"github.com/maruel/panicparse/v2/stack"
)

// M-PART: canonical key per similarity level, computed from exported fields
// only, following the property text (not Signature.similar).

func argsKey(b *strings.Builder, a *stack.Args, lvl stack.Similarity) {
	fmt.Fprintf(b, "(%d", len(a.Values))
	if a.Elided {
		b.WriteString("...")
	}
	for i := range a.Values {
		v := &a.Values[i]
		b.WriteByte(',')
		if v.IsAggregate {
			b.WriteByte('{')
			argsKey(b, &v.Fields, lvl)
			b.WriteByte('}')
			continue
		}
		switch lvl {
		case stack.ExactFlags, stack.ExactLines:
			if v.IsOffsetTooLarge {
				b.WriteByte('_')
			} else {
				fmt.Fprintf(b, "%x/%v", v.Value, v.IsPtr)
			}
		case stack.AnyPointer:
			switch {
			case v.IsOffsetTooLarge:
				b.WriteByte('_')
			case v.IsPtr:
				b.WriteString("ptr")
			default:
				fmt.Fprintf(b, "%x", v.Value)
			}
		default:
			b.WriteByte('v')
		}
	}
	b.WriteByte(')')
}

func stackKey(b *strings.Builder, s *stack.Stack, lvl stack.Similarity) {
	fmt.Fprintf(b, "[%d,%v", len(s.Calls), s.Elided)
	for i := range s.Calls {
		c := &s.Calls[i]
		fmt.Fprintf(b, "|%q %q:%d", c.Func.Complete, c.RemoteSrcPath, c.Line)
		argsKey(b, &c.Args, lvl)
	}
	b.WriteByte(']')
}

// PartKey is the canonical similarity-class key of a signature at a level.
func PartKey(s *stack.Signature, lvl stack.Similarity) string {
	var b strings.Builder
	fmt.Fprintf(&b, "%q", s.State)
	if lvl == stack.ExactFlags {
		fmt.Fprintf(&b, " locked=%v", s.Locked)
	}
	b.WriteString(" by")
	stackKey(&b, &s.CreatedBy, lvl)
	b.WriteString(" at")
	stackKey(&b, &s.Stack, lvl)
	return b.String()
}

// RefPartition groups goroutine ids by key; classes and ids sorted.
func RefPartition(s *stack.Snapshot, lvl stack.Similarity) [][]int {
	m := map[string][]int{}
	for _, g := range s.Goroutines {
		k := PartKey(&g.Signature, lvl)
		m[k] = append(m[k], g.ID)
	}
	return normPartition(m)
}

func normPartition(m map[string][]int) [][]int {
	var out [][]int
	for _, ids := range m {
		sort.Ints(ids)
		out = append(out, ids)
	}
	sort.Slice(out, func(i, j int) bool { return out[i][0] < out[j][0] })
	return out
}

// GotPartition is the partition an aggregation produced (classes sorted by smallest id).
func GotPartition(a *stack.Aggregated) [][]int {
	var out [][]int
	for _, b := range a.Buckets {
		out = append(out, append([]int{}, b.IDs...))
	}
	sort.Slice(out, func(i, j int) bool {
		if len(out[i]) == 0 || len(out[j]) == 0 {
			return len(out[i]) < len(out[j])
		}
		return out[i][0] < out[j][0]
	})
	return out
}

// CheckPartition verifies C04's clauses; returns "" or the violated clause.
func CheckPartition(s *stack.Snapshot, a *stack.Aggregated) (key, what string) {
	if a.Snapshot != s {
		return "snapshot-backref", "Aggregated.Snapshot does not refer to the snapshot it was made from"
	}
	seen := map[int]int{}
	firstBuckets := 0
	for bi, b := range a.Buckets {
		if len(b.IDs) == 0 {
			return "empty-bucket", fmt.Sprintf("bucket %d has no ids", bi)
		}
		if !sort.IntsAreSorted(b.IDs) {
			return "unsorted-ids", fmt.Sprintf("bucket %d ids %v not ascending", bi, b.IDs)
		}
		for _, id := range b.IDs {
			seen[id]++
		}
		if b.First {
			firstBuckets++
		}
	}
	for _, g := range s.Goroutines {
		switch seen[g.ID] {
		case 0:
			return "goroutine-lost", fmt.Sprintf("goroutine %d is in no bucket", g.ID)
		case 1:
		default:
			return "goroutine-duplicated", fmt.Sprintf("goroutine %d is in %d buckets", g.ID, seen[g.ID])
		}
		delete(seen, g.ID)
	}
	for id := range seen {
		return "goroutine-invented", fmt.Sprintf("bucket lists id %d which is not in the snapshot", id)
	}
	total := 0
	for _, b := range a.Buckets {
		total += len(b.IDs)
	}
	if total != len(s.Goroutines) {
		return "count", fmt.Sprintf("bucket sizes add up to %d, %d goroutines dumped", total, len(s.Goroutines))
	}
	if len(s.Goroutines) > 0 {
		want := 0
		for _, g := range s.Goroutines {
			if g.First {
				want++
			}
		}
		if want == 1 {
			if firstBuckets != 1 {
				return "first-flag", fmt.Sprintf("%d buckets flagged first", firstBuckets)
			}
			for _, b := range a.Buckets {
				has := false
				for _, id := range b.IDs {
					for _, g := range s.Goroutines {
						if g.ID == id && g.First {
							has = true
						}
					}
				}
				if has != b.First {
					return "first-flag", fmt.Sprintf("bucket with ids %v First=%v but contains first goroutine=%v", b.IDs, b.First, has)
				}
			}
		}
	}
	return "", ""
}

func partEq(a, b [][]int) bool {
	if len(a) != len(b) {
		return false
	}
	for i := range a {
		if len(a[i]) != len(b[i]) {
			return false
		}
		for j := range a[i] {
			if a[i][j] != b[i][j] {
				return false
			}
		}
	}
	return true
}

// PartEq compares two normalised partitions.
func PartEq(a, b [][]int) bool { return partEq(a, b) }

// Refines tells whether every class of fine is inside a class of coarse.
func Refines(fine, coarse [][]int) bool {
	cls := map[int]int{}
	for i, c := range coarse {
		for _, id := range c {
			cls[id] = i
		}
	}
	for _, f := range fine {
		for _, id := range f[1:] {
			if cls[id] != cls[f[0]] {
				return false
			}
		}
	}
	return true
}

// flatScalars lists the scalar arguments of an Args tree position-wise,
// with a shape string that must be equal for all members.
func flatScalars(a *stack.Args, out *[]*stack.Arg, shape *strings.Builder) {
	fmt.Fprintf(shape, "(%d", len(a.Values))
	if a.Elided {
		shape.WriteString("...")
	}
	for i := range a.Values {
		v := &a.Values[i]
		if v.IsAggregate {
			shape.WriteByte('{')
			flatScalars(&v.Fields, out, shape)
			shape.WriteByte('}')
		} else {
			shape.WriteByte('s')
			*out = append(*out, v)
		}
	}
	shape.WriteByte(')')
}

// CheckBucketSignature verifies C12 for one bucket given its members.
func CheckBucketSignature(b *stack.Bucket, members []*stack.Goroutine) (key, what string) {
	if len(members) == 0 {
		return "", ""
	}
	min, max, locked := members[0].SleepMin, members[0].SleepMax, false
	for _, m := range members {
		if m.SleepMin < min {
			min = m.SleepMin
		}
		if m.SleepMax > max {
			max = m.SleepMax
		}
		locked = locked || m.Locked
		if m.State != b.State {
			return "state", fmt.Sprintf("bucket state %q, member %d has %q", b.State, m.ID, m.State)
		}
	}
	if b.SleepMin != min || b.SleepMax != max {
		return "sleep-range", fmt.Sprintf("bucket sleep %d~%d, members span %d~%d", b.SleepMin, b.SleepMax, min, max)
	}
	if b.Locked != locked {
		return "locked", fmt.Sprintf("bucket locked=%v, OR over members=%v", b.Locked, locked)
	}
	chk := func(what string, sig *stack.Stack, get func(m *stack.Goroutine) *stack.Stack, withArgs bool) (string, string) {
		for _, m := range members {
			ms := get(m)
			if len(ms.Calls) != len(sig.Calls) {
				return what + "-length", fmt.Sprintf("bucket %s has %d frames, member %d has %d", what, len(sig.Calls), m.ID, len(ms.Calls))
			}
			if ms.Elided != sig.Elided {
				return what + "-elided", fmt.Sprintf("bucket %s elided=%v, member %d %v", what, sig.Elided, m.ID, ms.Elided)
			}
			for i := range sig.Calls {
				s, c := &sig.Calls[i], &ms.Calls[i]
				if s.Func.Complete != c.Func.Complete || s.RemoteSrcPath != c.RemoteSrcPath || s.Line != c.Line {
					return what + "-frame", fmt.Sprintf("bucket %s frame %d is %s @ %s:%d, member %d has %s @ %s:%d", what, i, s.Func.Complete, s.RemoteSrcPath, s.Line, m.ID, c.Func.Complete, c.RemoteSrcPath, c.Line)
				}
			}
		}
		// derived fields (source name, local/relative path, import path, location class) are functions of the frame
		// the members share: the bucket must show what some member has, i.e. what all have when they agree
		for i := range sig.Calls {
			s := &sig.Calls[i]
			found := false
			for _, m := range members {
				c := &get(m).Calls[i]
				if s.SrcName == c.SrcName && s.DirSrc == c.DirSrc && s.LocalSrcPath == c.LocalSrcPath && s.RelSrcPath == c.RelSrcPath && s.ImportPath == c.ImportPath && s.Location == c.Location && s.Func == c.Func {
					found = true
					break
				}
			}
			if !found {
				c := &get(members[0]).Calls[i]
				return what + "-frame-derived", fmt.Sprintf("bucket %s frame %d shows {src %s dir %s local %q rel %q import %q location %v}, no member has that; member %d has {src %s dir %s local %q rel %q import %q location %v}",
					what, i, s.SrcName, s.DirSrc, s.LocalSrcPath, s.RelSrcPath, s.ImportPath, s.Location, members[0].ID, c.SrcName, c.DirSrc, c.LocalSrcPath, c.RelSrcPath, c.ImportPath, c.Location)
			}
		}
		if !withArgs {
			return "", ""
		}
		for i := range sig.Calls {
			var sflat []*stack.Arg
			var sshape strings.Builder
			flatScalars(&sig.Calls[i].Args, &sflat, &sshape)
			mflat := make([][]*stack.Arg, len(members))
			for mi, m := range members {
				var sh strings.Builder
				flatScalars(&get(m).Calls[i].Args, &mflat[mi], &sh)
				if sh.String() != sshape.String() {
					return "arg-shape", fmt.Sprintf("frame %d: bucket argument shape %s, member %d has %s", i, sshape.String(), m.ID, sh.String())
				}
			}
			frameEq := true
			for p, sa := range sflat {
				allEq := true
				f := mflat[0][p]
				for mi := range members {
					a := mflat[mi][p]
					if a.Value != f.Value || a.IsPtr != f.IsPtr || a.IsOffsetTooLarge != f.IsOffsetTooLarge {
						allEq = false
						frameEq = false
					}
				}
				star := sa.Name == "*"
				if allEq && star {
					return "wildcard-on-common-arg", fmt.Sprintf("frame %d arg %d equal in all %d members (%#x) but shown as '*'", i, p, len(members), f.Value)
				}
				if !allEq && !star {
					return "differing-arg-shown-as-common", fmt.Sprintf("frame %d arg %d differs between members but bucket shows %s (%#x)", i, p, sa.String(), sa.Value)
				}
				if allEq && (sa.Value != f.Value || sa.IsPtr != f.IsPtr || sa.IsOffsetTooLarge != f.IsOffsetTooLarge || sa.Name != f.Name) {
					return "common-arg-changed", fmt.Sprintf("frame %d arg %d is %s in all members, bucket shows %s", i, p, f.String(), sa.String())
				}
			}
			// the typed argument strings of source analysis are what is displayed when present: they spell out values,
			// so they may be shown for the bucket only when every member has exactly these
			if pr := sig.Calls[i].Args.Processed; len(pr) != 0 {
				if !frameEq {
					return "typed-args-of-one-member-shown", fmt.Sprintf("frame %d: members differ in an argument but the bucket displays the typed arguments %q", i, pr)
				}
				for _, m := range members {
					mp := get(m).Calls[i].Args.Processed
					if strings.Join(mp, "\x00") != strings.Join(pr, "\x00") {
						return "typed-args-not-of-members", fmt.Sprintf("frame %d: bucket displays typed arguments %q, member %d has %q", i, pr, m.ID, mp)
					}
				}
			}
		}
		return "", ""
	}
	if k, w := chk("creator", &b.CreatedBy, func(m *stack.Goroutine) *stack.Stack { return &m.CreatedBy }, false); k != "" {
		return k, w
	}
	return chk("stack", &b.Stack, func(m *stack.Goroutine) *stack.Stack { return &m.Stack }, true)
}
