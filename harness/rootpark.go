// Package verifharness holds the one function of the harness whose source file lies directly in the root directory
// of its module (next to go.mod): goroutines parked in it give live dumps a frame whose path relative to the module
// root has no directory part.
package verifharness

// ParkAtModuleRoot blocks until stop is closed.
//
//go:noinline
func ParkAtModuleRoot(started, stop chan struct{}) {
	close(started)
	<-stop
}
