package gen

import (
	"fmt"
	"os"
	"path/filepath"
	"sort"
	"strings"

	"verifharness/core"
)

// G-FS: file-system layouts with known ground truth.

// FSClass is the expected location class of a frame.
type FSClass int

// Classes (same order as stack.Location).
const (
	FSUnknown FSClass = iota
	FSGoMod
	FSGOPATH
	FSGoPkg
	FSStdlib
)

// FSFrame is a frame of the dump with its expected resolution.
type FSFrame struct {
	Remote   string  `json:"remote"` // path as printed in the dump
	Local    string  `json:"local"`  // expected LocalSrcPath ("" = must stay unresolved)
	Rel      string  `json:"rel"`
	Import   string  `json:"import"`
	Class    FSClass `json:"class"`
	Exists   bool    `json:"exists"`   // the local file exists
	Pkg      string  `json:"pkg"`      // package path used for the symbol
	Explains string  `json:"explains"` // remote root that explains it ("" = none)
	Decoy    bool    `json:"decoy,omitempty"`
	Hostile  bool    `json:"hostile,omitempty"`
	TestMain bool    `json:"testmain,omitempty"`
}

// FSLayout is one generated layout.
type FSLayout struct {
	Dir          string            `json:"dir"`
	LocalGOROOT  string            `json:"local_goroot"`
	LocalGOPATHs []string          `json:"local_gopaths"`
	RemoteGOROOT string            `json:"remote_goroot"`
	RemoteGOPATH map[string]string `json:"remote_gopaths"` // remote -> local
	Mods         map[string]string `json:"mods"`           // module dir -> import path
	Frames       []FSFrame         `json:"frames"`
}

func writeFile(p, content string) {
	_ = os.MkdirAll(filepath.Dir(p), 0o755)
	_ = os.WriteFile(p, []byte(content), 0o644)
}

var stdPkgs = []string{"fmt/print.go", "sort/sort.go", "net/http/server.go", "runtime/proc.go", "os/file.go", "sync/mutex.go", "internal/poll/fd_unix.go"}
var gpPkgs = []string{"github.com/alpha/one/a.go", "github.com/alpha/one/sub/b.go", "example.org/x/y/z.go", "gopkg.in/yaml.v2/yaml.go", "corp/internal/tool/main.go"}
var modPkgs = []string{"github.com/beta/two@v1.2.3/two.go", "github.com/beta/two@v1.2.3/deep/er/t.go", "golang.org/x/sync@v0.1.0/errgroup/errgroup.go", "gopkg.in/ini.v1@v1.67.0/ini.go"}

// FSCfg bounds a layout.
type FSCfg struct {
	Nested      bool // nested modules / overlapping GOPATH roots (C06 only: the answer is a matter of priority)
	Decoys      bool
	MissingSome bool
	// Hostile adds frames whose paths are a detected remote root plus a short remainder outside its source trees
	// (root+"/tool.go", root+".go", root+"x/src/a/b.go", ...): robustness inputs, no class is demanded for them.
	Hostile bool
}

// GenFS creates a layout under dir (which must be empty) and the frames of a dump referencing it.
func GenFS(r *core.Rand, dir string, cfg *FSCfg) *FSLayout {
	l := &FSLayout{Dir: dir, RemoteGOPATH: map[string]string{}, Mods: map[string]string{}}
	src := func(pkgfile string) string {
		return "package " + strings.ReplaceAll(filepath.Base(filepath.Dir(pkgfile)), ".", "_") + "\n"
	}
	// Go root
	hasRoot := r.Chance(4, 5)
	if hasRoot {
		l.LocalGOROOT = dir + "/goroot"
		l.RemoteGOROOT = r.Pick([]string{"/usr/local/go", "/remote/sdk/go1.26", "/opt/go", dir + "/goroot", "/home/dev/src/go1.26", "/opt/pkg/mod/sdk/go", "D:/sdk/go1.26", "sdk/go"})
		for _, f := range stdPkgs {
			writeFile(l.LocalGOROOT+"/src/"+f, src(f))
		}
	} else {
		l.LocalGOROOT = dir + "/no-goroot"
	}
	// GOPATHs
	ngp := r.Intn(4)
	remoteNames := []string{"/home/builder/go", "/remote/gopath2", "/srv/ci/gp"}
	if r.Chance(1, 3) {
		// roots whose own name contains a "src" or "pkg/mod" component
		remoteNames = []string{"/home/dev/src/go", "/data/srcdir/pkg/mod/gp", "/ci/pkg/mod/cache/gp"}
	} else if r.Chance(1, 4) {
		// roots that do not start with a slash: a Windows drive, a relative path (-trimpath style), a UNC-like path
		remoteNames = []string{"C:/Users/dev/go", "work/gopath", "//buildhost/share/gp"}
	}
	for i := 0; i < ngp; i++ {
		lp := fmt.Sprintf("%s/gp%d", dir, i)
		l.LocalGOPATHs = append(l.LocalGOPATHs, lp)
	}
	addFrame := func(f FSFrame) { l.Frames = append(l.Frames, f) }
	present := func() bool { return !cfg.MissingSome || r.Chance(3, 4) }
	if hasRoot {
		n := 1 + r.Intn(4)
		anyExists := false
		var fs []FSFrame
		for i := 0; i < n; i++ {
			f := r.Pick(stdPkgs)
			fs = append(fs, FSFrame{Remote: l.RemoteGOROOT + "/src/" + f, Local: l.LocalGOROOT + "/src/" + f, Rel: f, Import: filepath.Dir(f), Class: FSStdlib, Exists: true, Pkg: filepath.Dir(f), Explains: l.RemoteGOROOT})
			anyExists = true
		}
		if cfg.MissingSome && r.Bool() {
			f := "crypto/gone/gone.go"
			fs = append(fs, FSFrame{Remote: l.RemoteGOROOT + "/src/" + f, Local: l.LocalGOROOT + "/src/" + f, Rel: f, Import: filepath.Dir(f), Class: FSStdlib, Exists: false, Pkg: "crypto/gone", Explains: l.RemoteGOROOT})
		}
		_ = anyExists
		for _, f := range fs {
			addFrame(f)
		}
	}
	// shorterTails writes, next to a file of a source tree, files at shorter tails of its relative path
	// ("corp/util/util.go" -> "util/util.go", "util.go"): the remote root is to be found through the whole
	// relative path, not through the first tail that happens to exist.
	shorterTails := func(tree, rel string) {
		parts := strings.Split(rel, "/")
		for k := 1; k < len(parts); k++ {
			if r.Bool() {
				writeFile(tree+"/"+strings.Join(parts[k:], "/"), "package shadow\n")
			}
		}
	}
	for i, lp := range l.LocalGOPATHs {
		ambiguous := cfg.Decoys && r.Chance(1, 4)
		remote := remoteNames[i]
		if r.Chance(1, 4) {
			remote = lp
		}
		if cfg.Decoys && r.Chance(1, 10) {
			// the only frame under this GOPATH is a go-test generated main that exists locally (a kept work
			// directory): it is the sole witness of its root, is mapped like any file and keeps its class
			f := fmt.Sprintf("gp%dpkg/github.com/kept/work/_test/_testmain.go", i)
			writeFile(lp+"/src/"+f, "package main\n")
			addFrame(FSFrame{Remote: remote + "/src/" + f, Local: lp + "/src/" + f, Rel: f, Import: "main", Class: FSStdlib, Exists: true, Pkg: "main", Explains: remote, TestMain: true})
			l.RemoteGOPATH[remote] = lp
			continue
		}
		used := false
		// a directory of which one referenced file is absent locally and its sibling exists; now and then these two
		// are the only frames under this root, and the absent one sorts first or last
		pairOnly := false
		if cfg.MissingSome && r.Chance(1, 3) {
			d := fmt.Sprintf("gp%dpkg/github.com/pair/p%d/", i, r.Intn(3))
			gone, there := "alpha.go", "worker.go"
			if r.Bool() {
				gone, there = "zulu.go", "mid.go"
			}
			writeFile(lp+"/src/"+d+there, src(d+there))
			for _, n := range []string{gone, there} {
				f := d + n
				addFrame(FSFrame{Remote: remote + "/src/" + f, Local: lp + "/src/" + f, Rel: f, Import: filepath.Dir(f), Class: FSGOPATH, Exists: n == there, Pkg: filepath.Dir(f), Explains: remote})
			}
			used = true
			pairOnly = r.Bool()
		}
		// src tree
		if !pairOnly && r.Chance(3, 4) {
			n := 1 + r.Intn(3)
			for k := 0; k < n; k++ {
				f := fmt.Sprintf("gp%dpkg/", i) + r.Pick(gpPkgs)
				ex := present() || k == 0
				if ex {
					writeFile(lp+"/src/"+f, src(f))
					if ambiguous {
						shorterTails(lp+"/src", f)
					}
				}
				addFrame(FSFrame{Remote: remote + "/src/" + f, Local: lp + "/src/" + f, Rel: f, Import: filepath.Dir(f), Class: FSGOPATH, Exists: ex, Pkg: filepath.Dir(f), Explains: remote})
				used = true
			}
		}
		if used && cfg.Decoys && r.Chance(1, 4) {
			// neighbours in one directory with different per-file answers: a kept go-test main next to a test helper
			// (standard library vs GOPATH), and two files lying directly in src/ (the import path of each is the
			// one of its own function)
			d := fmt.Sprintf("gp%dpkg/github.com/kept/t%d/_test/", i, r.Intn(3))
			writeFile(lp+"/src/"+d+"_testmain.go", "package main\n")
			writeFile(lp+"/src/"+d+"helper_test.go", "package main\n")
			addFrame(FSFrame{Remote: remote + "/src/" + d + "_testmain.go", Local: lp + "/src/" + d + "_testmain.go", Rel: d + "_testmain.go", Import: "main", Class: FSStdlib, Exists: true, Pkg: "main", Explains: remote, TestMain: true})
			addFrame(FSFrame{Remote: remote + "/src/" + d + "helper_test.go", Local: lp + "/src/" + d + "helper_test.go", Rel: d + "helper_test.go", Import: filepath.Dir(d + "x"), Class: FSGOPATH, Exists: true, Pkg: filepath.Dir(d + "x"), Explains: remote})
			for _, n := range []string{"a", "b"} {
				f := fmt.Sprintf("rootfile%d_%s.go", i, n)
				writeFile(lp+"/src/"+f, "package root"+n+"\n")
				addFrame(FSFrame{Remote: remote + "/src/" + f, Local: lp + "/src/" + f, Rel: f, Import: "rootpkg" + n, Class: FSGOPATH, Exists: true, Pkg: "rootpkg" + n, Explains: remote})
			}
		}
		// module cache
		if !pairOnly && r.Chance(2, 3) {
			n := 1 + r.Intn(3)
			// now and then the remote module cache lies outside the remote GOPATH (GOMODCACHE, or two users' trees):
			// two remote roots then map to this one local GOPATH
			remoteSrc, usedSrc := remote, used
			if used && remote != lp && r.Chance(1, 3) {
				remote = fmt.Sprintf("/mnt/cache%d/gomod", i)
				used = false
			}
			for k := 0; k < n; k++ {
				f := fmt.Sprintf("gp%dmod/", i) + r.Pick(modPkgs)
				ex := present() || (k == 0 && !used)
				if ex {
					writeFile(lp+"/pkg/mod/"+f, src(f))
					if ambiguous {
						shorterTails(lp+"/pkg/mod", f)
					}
				}
				pk := filepath.Dir(f)
				if at := strings.IndexByte(pk, '@'); at >= 0 {
					if sl := strings.IndexByte(pk[at:], '/'); sl >= 0 {
						pk = pk[:at] + pk[at+sl:]
					} else {
						pk = pk[:at]
					}
				}
				addFrame(FSFrame{Remote: remote + "/pkg/mod/" + f, Local: lp + "/pkg/mod/" + f, Rel: f, Import: filepath.Dir(f), Class: FSGoPkg, Exists: ex, Pkg: pk, Explains: remote})
				used = true
			}
			if remote != remoteSrc {
				l.RemoteGOPATH[remote] = lp
				remote, used = remoteSrc, usedSrc
			}
		}
		if used {
			l.RemoteGOPATH[remote] = lp
		}
	}
	// modules (local == remote)
	nm := r.Intn(3)
	for i := 0; i < nm; i++ {
		depth := 1 + r.Intn(4)
		md := dir + "/work"
		for d := 0; d < depth; d++ {
			md += fmt.Sprintf("/d%d_%d", i, d)
		}
		imp := fmt.Sprintf("example.com/mod%d", i)
		gomod := "module " + imp + "\n\ngo 1.23\n"
		if r.Chance(1, 4) {
			gomod = "// comment\r\nmodule " + imp + "\r\n\r\ngo 1.23\r\n"
		}
		writeFile(md+"/go.mod", gomod)
		l.Mods[md] = imp
		n := 1 + r.Intn(3)
		for k := 0; k < n; k++ {
			sub := []string{"", "pkg", "internal/deep", "cmd/tool"}[r.Intn(4)]
			rel := fmt.Sprintf("f%d.go", k)
			ip := imp
			if sub != "" {
				rel = sub + "/" + rel
				ip = imp + "/" + sub
			}
			writeFile(md+"/"+rel, "package x\n")
			pk := ip
			if sub == "" && r.Bool() {
				pk = "main" // a command at the root of its module: the symbol says main, the import path is the module's
			}
			addFrame(FSFrame{Remote: md + "/" + rel, Local: md + "/" + rel, Rel: rel, Import: ip, Class: FSGoMod, Exists: true, Pkg: pk, Explains: md})
		}
		if r.Chance(1, 3) {
			// a sibling module whose directory name has this module's directory as a string prefix ("/m" vs "/m2")
			sd := md + "2"
			simp := fmt.Sprintf("example.com/sibling%d", i)
			writeFile(sd+"/go.mod", "module "+simp+"\n")
			writeFile(sd+"/s.go", "package s\n")
			l.Mods[sd] = simp
			addFrame(FSFrame{Remote: sd + "/s.go", Local: sd + "/s.go", Rel: "s.go", Import: simp, Class: FSGoMod, Exists: true, Pkg: simp, Explains: sd})
		}
		if cfg.Nested && r.Bool() {
			// nested module inside this one
			nd := md + "/nested"
			nimp := fmt.Sprintf("example.com/other%d", i)
			writeFile(nd+"/go.mod", "module "+nimp+"\n")
			writeFile(nd+"/n.go", "package nested\n")
			l.Mods[nd] = nimp
			addFrame(FSFrame{Remote: nd + "/n.go", Local: nd + "/n.go", Rel: "n.go", Import: nimp, Class: FSGoMod, Exists: true, Pkg: nimp, Explains: nd})
			// a file of the outer module that sorts after the nested directory
			writeFile(md+"/zz.go", "package x\n")
			addFrame(FSFrame{Remote: md + "/zz.go", Local: md + "/zz.go", Rel: "zz.go", Import: imp, Class: FSGoMod, Exists: true, Pkg: imp, Explains: md})
		}
	}
	// "go run" style file: exists, no go.mod above it
	if r.Chance(1, 3) {
		p := dir + "/scratch/run/main.go"
		writeFile(p, "package main\n")
		l.Mods[dir+"/scratch/run"] = "main"
		addFrame(FSFrame{Remote: p, Local: p, Rel: "main.go", Import: "main", Class: FSGoMod, Exists: true, Pkg: "main", Explains: dir + "/scratch/run"})
	}
	if cfg.Hostile {
		var roots []string
		if l.RemoteGOROOT != "" {
			roots = append(roots, l.RemoteGOROOT)
		}
		for rem := range l.RemoteGOPATH {
			roots = append(roots, rem)
		}
		for md := range l.Mods {
			roots = append(roots, md)
		}
		sort.Strings(roots)
		rems := []string{"/a.go", "/ab.go", "/abc.go", "/tool.go", "/tools.go", "/x/y.go", "/src.go", "/srcs/a.go", "/pkg/m.go", "/pkg/mod.go", "/pkg/modx/y.go", "/bin/tool.go", ".go", "x/src/a/b.go", "/sr.go", "/p.go", "/zz/src/q/q.go"}
		for _, root := range roots {
			for k := r.Intn(4); k > 0; k-- {
				addFrame(FSFrame{Remote: root + r.Pick(rems), Class: FSUnknown, Pkg: "hostile/pkg", Hostile: true})
			}
			if len(root) > 2 && r.Chance(1, 3) {
				addFrame(FSFrame{Remote: root[:len(root)-1] + "/cut.go", Class: FSUnknown, Pkg: "hostile/pkg", Hostile: true})
			}
		}
	}
	// frames under no root
	for k := r.Intn(3); k > 0; k-- {
		p := fmt.Sprintf("/nowhere/%d/lib/x%d.go", r.Intn(5), k)
		addFrame(FSFrame{Remote: p, Class: FSUnknown, Pkg: "nowhere/lib"})
	}
	// a flood of files from another machine: dozens of distinct absent paths that sort before every other file of the
	// dump (a foreign library with many frames) - the files that do exist must be located all the same
	if r.Chance(1, 6) {
		n := 30 + r.Intn(45)
		for k := 0; k < n; k++ {
			addFrame(FSFrame{Remote: fmt.Sprintf("/!foreign/m%02d/f%02d.go", k%7, k), Class: FSUnknown, Pkg: fmt.Sprintf("foreign/m%02d", k%7)})
		}
	}
	// decoys: under no root, but the tail names a file that exists under a local root
	if cfg.Decoys && hasRoot {
		for k := 1 + r.Intn(3); k > 0; k-- {
			tail := r.Pick(stdPkgs)
			pre := []string{"/w", "/home/u/proj", "/a/b/c/d", "", "/x/pkg/mod", "/srcs", "/q/src2"}[r.Intn(7)]
			addFrame(FSFrame{Remote: pre + "/" + tail, Class: FSUnknown, Pkg: "decoy/" + filepath.Dir(tail), Decoy: true})
		}
	}
	if cfg.Decoys && len(l.LocalGOPATHs) > 0 {
		for _, f := range l.Frames {
			if f.Class == FSGOPATH && f.Exists && r.Bool() {
				addFrame(FSFrame{Remote: "/elsewhere/" + f.Rel, Class: FSUnknown, Pkg: "decoy/x", Decoy: true})
				break
			}
		}
	}
	// go test generated main lying under a detected root (GOPATH-mode test binaries are built next to their package)
	if r.Chance(1, 3) {
		var roots []string
		for rem := range l.RemoteGOPATH {
			roots = append(roots, rem+"/src/gp0pkg/github.com/alpha/one", rem+"/pkg/mod/gp0mod/github.com/beta/two@v1.2.3")
		}
		for md := range l.Mods {
			roots = append(roots, md, md+"/pkg")
		}
		if l.RemoteGOROOT != "" {
			roots = append(roots, l.RemoteGOROOT+"/src/fmt")
		}
		sort.Strings(roots)
		if len(roots) > 0 {
			addFrame(FSFrame{Remote: r.Pick(roots) + "/_test/_testmain.go", Class: FSStdlib, Pkg: "main", TestMain: true})
		}
	}
	// go test generated main
	if r.Chance(1, 3) {
		addFrame(FSFrame{Remote: "/tmp/go-build123/b001/_test/_testmain.go", Class: FSStdlib, Pkg: "main", TestMain: true})
	}
	return l
}

// DumpFor prints a dump whose frames reference the layout, spread over a few goroutines.
func (l *FSLayout) DumpFor(r *core.Rand) *Dump {
	d := &Dump{F: Format{FileIndent: "\t"}}
	perm := r.Perm(len(l.Frames))
	ng := 1 + r.Intn(3)
	if r.Chance(1, 3) {
		// one goroutine, frames in the order the layout was built: files of one directory stay next to each other
		ng = 1
		for i := range perm {
			perm[i] = i
		}
	}
	used := map[int]bool{}
	for g := 0; g < ng; g++ {
		d.Gs = append(d.Gs, Goroutine{ID: GenID(r, used), State: "running"})
	}
	for k, fi := range perm {
		f := l.Frames[fi]
		g := &d.Gs[k%ng]
		name := []string{"F", "f", "(*T).Do", "(*t).do"}[k%4]
		if f.Pkg == "main" {
			name = "main"
		}
		g.Frames = append(g.Frames, Frame{Sym: Sym{Pkg: f.Pkg, Name: name}, Args: Args{Vals: []Arg{{Value: uint64(k + 1)}}}, File: f.Remote, Line: 10 + k, PCOff: 0x10})
	}
	var gs []Goroutine
	for _, g := range d.Gs {
		if len(g.Frames) > 0 {
			// "created by" frames: under a detected root, under none, or absent
			switch r.Intn(3) {
			case 0:
				f := l.Frames[r.Intn(len(l.Frames))]
				g.Creator = &Creator{Sym: Sym{Pkg: f.Pkg, Name: "spawn"}, File: f.Remote, Line: 77, PCOff: 0x20}
			case 1:
				g.Creator = &Creator{Sym: Sym{Pkg: "nowhere/sched", Name: "spawn"}, File: "/nowhere/else/sched/sched.go", Line: 78, PCOff: 0x20}
			}
			gs = append(gs, g)
		}
	}
	d.Gs = gs
	if len(d.Gs) == 0 {
		d.Gs = []Goroutine{{ID: 1, State: "running", Frames: []Frame{{Sym: Sym{Pkg: "main", Name: "main"}, File: "/nowhere/main.go", Line: 1}}}}
	}
	return d
}
