package gen

import (
	"encoding/base64"
	"encoding/json"
	"unicode/utf8"
)

// BinStr is a string that survives a JSON round trip even when it is not
// valid UTF-8 (binary junk): such values are stored as {"b64": ...}.
type BinStr string

// MarshalJSON implements json.Marshaler.
func (b BinStr) MarshalJSON() ([]byte, error) {
	if utf8.ValidString(string(b)) {
		return json.Marshal(string(b))
	}
	return json.Marshal(map[string]string{"b64": base64.StdEncoding.EncodeToString([]byte(b))})
}

// UnmarshalJSON implements json.Unmarshaler.
func (b *BinStr) UnmarshalJSON(d []byte) error {
	var s string
	if err := json.Unmarshal(d, &s); err == nil {
		*b = BinStr(s)
		return nil
	}
	var m map[string]string
	if err := json.Unmarshal(d, &m); err != nil {
		return err
	}
	raw, err := base64.StdEncoding.DecodeString(m["b64"])
	*b = BinStr(raw)
	return err
}
