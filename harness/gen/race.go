package gen

import (
	"bytes"
	"fmt"

	"verifharness/core"
)

// RaceOp is one memory operation of a race report.
type RaceOp struct {
	Write  bool    `json:"write"`
	Addr   uint64  `json:"addr"`
	GID    int     `json:"gid"`
	Frames []Frame `json:"frames"`
}

// RaceCreate is one "Goroutine N (running) created at:" section.
type RaceCreate struct {
	GID     int     `json:"gid"`
	Running bool    `json:"running"`
	Frames  []Frame `json:"frames"`
}

// Race is an abstract data race report (tsan, Go flavour).
type Race struct {
	Ops     []RaceOp     `json:"ops"`
	Creates []RaceCreate `json:"creates"`
	CRLF    bool         `json:"crlf,omitempty"`
	// WithArgs prints arguments on function lines (tsan prints "f()").
	WithArgs bool `json:"with_args,omitempty"`
	// NoFinalEOL leaves the closing separator unterminated.
	NoFinalEOL bool `json:"no_final_eol,omitempty"`
}

// EOL returns the line terminator.
func (rc *Race) EOL() string {
	if rc.CRLF {
		return "\r\n"
	}
	return "\n"
}

func (rc *Race) stack(b *bytes.Buffer, fr []Frame) {
	eol := rc.EOL()
	for i := range fr {
		f := &fr[i]
		b.WriteString("  " + f.Sym.Raw() + "(")
		if rc.WithArgs {
			b.WriteString(f.Args.String())
		}
		b.WriteString(")" + eol)
		fmt.Fprintf(b, "      %s:%d +0x%x%s", f.File, f.Line, f.PCOff, eol)
	}
}

// Render prints the report the way tsan_report.cpp does for Go.
func (rc *Race) Render() []byte {
	out, _, _ := rc.RenderSpans()
	return out
}

// RenderSpans also returns the offset just after each operation's stack and
// just after each creation section's stack.
func (rc *Race) RenderSpans() (out []byte, opEnd, createEnd []int) {
	var b bytes.Buffer
	eol := rc.EOL()
	b.WriteString("==================" + eol)
	b.WriteString("WARNING: DATA RACE" + eol)
	for i := range rc.Ops {
		op := &rc.Ops[i]
		if i > 0 {
			b.WriteString(eol) // tsan prints "\n" before each section
		}
		kind := "Read"
		if op.Write {
			kind = "Write"
		}
		if i > 0 {
			kind = "Previous read"
			if op.Write {
				kind = "Previous write"
			}
		}
		fmt.Fprintf(&b, "%s at 0x%012x by goroutine %d:%s", kind, op.Addr, op.GID, eol)
		rc.stack(&b, op.Frames)
		opEnd = append(opEnd, b.Len())
	}
	for i := range rc.Creates {
		c := &rc.Creates[i]
		b.WriteString(eol)
		st := "finished"
		if c.Running {
			st = "running"
		}
		fmt.Fprintf(&b, "Goroutine %d (%s) created at:%s", c.GID, st, eol)
		rc.stack(&b, c.Frames)
		createEnd = append(createEnd, b.Len())
	}
	b.WriteString("==================")
	if !rc.NoFinalEOL {
		b.WriteString(eol)
	}
	return b.Bytes(), opEnd, createEnd
}

func genRaceFrames(r *core.Rand, cfg *Cfg, n int, withArgs bool) []Frame {
	var out []Frame
	for i := 0; i < n; i++ {
		f := Frame{Sym: GenSym(r, cfg), File: genRaceFile(r), Line: genLine(r), PCOff: uint64(1 + r.Intn(0xfffff))}
		if withArgs {
			f.Args = GenArgs(r, cfg)
		}
		out = append(out, f)
	}
	return out
}

func genRaceFile(r *core.Rand) string {
	for {
		f := GenFile(r, &Cfg{})
		if len(f) < 1000 {
			return f
		}
	}
}

// RaceCfg bounds a generated report.
type RaceCfg struct {
	MaxOps    int
	MaxFrames int
	// CreateMode: 0 random non-empty subset, 1 all, 2 empty subset.
	CreateMode int
	// Unknown adds a creation section naming a goroutine that took part in no operation.
	Unknown bool
	// ForceArgs: every frame, also those of the creation stacks, is printed with arguments.
	ForceArgs bool
	// PtrPool: pointer-like argument values are drawn from this pool (recurrence across stacks).
	PtrPool []uint64
}

// GenRace makes a report.
func GenRace(r *core.Rand, rc *RaceCfg) *Race {
	cfg := &Cfg{MaxDepth: 3, MaxArgs: 4, AllowPlus: true, PtrPool: rc.PtrPool}
	out := &Race{CRLF: r.Chance(1, 4), WithArgs: r.Chance(1, 3) || rc.ForceArgs, NoFinalEOL: r.Chance(1, 12)}
	nops := 2
	if rc.MaxOps > 2 && r.Chance(1, 2) {
		nops = 2 + r.Intn(rc.MaxOps-1)
	}
	used := map[int]bool{}
	addr := 0xc000000000 + uint64(r.Intn(1<<24))*8
	if r.Chance(1, 10) {
		addr = 1 + uint64(r.Intn(1000))
	}
	// overlapping accesses of different size or offset print different addresses in one report
	mixed := r.Chance(1, 2)
	for i := 0; i < nops; i++ {
		if mixed && i > 0 {
			switch r.Intn(3) {
			case 0:
				addr += uint64(1 + r.Intn(7))
			case 1:
				addr = 0xc000000000 + uint64(r.Intn(1<<24))*8
			}
		}
		out.Ops = append(out.Ops, RaceOp{Write: r.Bool(), Addr: addr, GID: GenID(r, used), Frames: genRaceFrames(r, cfg, 1+r.Intn(rc.MaxFrames), out.WithArgs)})
	}
	order := r.Perm(nops)
	for _, i := range order {
		include := true
		switch rc.CreateMode {
		case 0:
			include = r.Chance(2, 3)
		case 2:
			include = false
		}
		if include {
			out.Creates = append(out.Creates, RaceCreate{GID: out.Ops[i].GID, Running: r.Bool(), Frames: genRaceFrames(r, cfg, 1+r.Intn(rc.MaxFrames), out.WithArgs)})
		}
	}
	if rc.CreateMode == 0 && len(out.Creates) == 0 {
		i := order[0]
		out.Creates = append(out.Creates, RaceCreate{GID: out.Ops[i].GID, Running: r.Bool(), Frames: genRaceFrames(r, cfg, 1+r.Intn(rc.MaxFrames), out.WithArgs)})
	}
	if rc.Unknown {
		c := RaceCreate{GID: GenID(r, used), Running: r.Bool(), Frames: genRaceFrames(r, cfg, 1+r.Intn(rc.MaxFrames), out.WithArgs)}
		pos := r.Intn(len(out.Creates) + 1)
		out.Creates = append(out.Creates[:pos], append([]RaceCreate{c}, out.Creates[pos:]...)...)
	}
	return out
}
