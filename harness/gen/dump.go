// Package gen holds the generators: models of the *producers* of the text
// panicparse consumes (the Go runtime's traceback printer, tsan's Go report
// printer, the linker's symbol escaping), never models of panicparse.
package gen

import (
	"bytes"
	"fmt"
	"strconv"
	"strings"

	"verifharness/core"
)

// Arg is one printed argument.
type Arg struct {
	Agg        bool   `json:"agg,omitempty"`
	Fields     []Arg  `json:"fields,omitempty"`
	Elided     bool   `json:"elided,omitempty"` // aggregate ends with ", ..."
	Value      uint64 `json:"v,omitempty"`
	Inaccurate bool   `json:"q,omitempty"`
	TooLarge   bool   `json:"u,omitempty"`
}

// Args is a printed argument list.
type Args struct {
	Vals   []Arg `json:"vals,omitempty"`
	Elided bool  `json:"elided,omitempty"`
}

// Sym is a symbol as the linker knows it: package import path + name.
type Sym struct {
	Pkg   string `json:"pkg"`
	Name  string `json:"name"`
	NoDot bool   `json:"nodot,omitempty"` // C symbol without package ("foo")
}

// Frame is one call frame.
type Frame struct {
	Sym   Sym    `json:"sym"`
	Args  Args   `json:"args"`
	File  string `json:"file"`
	Line  int    `json:"line"`
	PCOff uint64 `json:"pcoff,omitempty"`
	FP    uint64 `json:"fp,omitempty"`
	SP    uint64 `json:"sp,omitempty"`
	PC    uint64 `json:"pc,omitempty"`
}

// Creator is the "created by" part.
type Creator struct {
	Sym    Sym    `json:"sym"`
	Parent int    `json:"parent,omitempty"`
	File   string `json:"file"`
	Line   int    `json:"line"`
	PCOff  uint64 `json:"pcoff,omitempty"`
}

// Goroutine is one abstract goroutine of a dump.
type Goroutine struct {
	ID          int      `json:"id"`
	State       string   `json:"state"`
	Minutes     int      `json:"minutes,omitempty"`
	Locked      bool     `json:"locked,omitempty"`
	ExtraItems  []string `json:"extra,omitempty"` // e.g. "synctest bubble 1"
	Frames      []Frame  `json:"frames,omitempty"`
	ElidedAfter int      `json:"elided_after,omitempty"` // marker after this many frames (0 = none)
	ElidedCount int      `json:"elided_count,omitempty"`
	Unavailable bool     `json:"unavailable,omitempty"`
	Creator     *Creator `json:"creator,omitempty"`
}

// Format selects the printing variants.
type Format struct {
	CRLF       bool   `json:"crlf,omitempty"`
	Indent     string `json:"indent,omitempty"`
	FileIndent string `json:"file_indent"`
	Annot      int    `json:"annot,omitempty"`      // 0 none, 1 gp m, 2 gp m mp
	FPSP       int    `json:"fpsp,omitempty"`       // 0 none, 1 fp sp, 2 fp sp pc
	ElidedOld  bool   `json:"elided_old,omitempty"` // "...additional frames elided..."
	CreatedIn  bool   `json:"created_in,omitempty"` // "created by f in goroutine N"
	NoFinalEOL bool   `json:"no_final_eol,omitempty"`
	TrailBlank bool   `json:"trail_blank,omitempty"` // blank line after the last goroutine
	// IndentBlank: the blank lines between goroutines carry the indentation too (a filter that indents every line).
	IndentBlank bool `json:"indent_blank,omitempty"`
}

// Dump is an abstract goroutine dump.
type Dump struct {
	Gs []Goroutine `json:"gs"`
	F  Format      `json:"f"`
}

// AllFormats enumerates every combination of the format variants.
func AllFormats() []Format {
	var out []Format
	for _, crlf := range []bool{false, true} {
		for _, ind := range []string{"", "  ", "\t", "        "} {
			for _, fi := range []string{"\t", "    ", " "} {
				for annot := 0; annot < 3; annot++ {
					for fpsp := 0; fpsp < 3; fpsp++ {
						for _, eo := range []bool{false, true} {
							for _, ci := range []bool{false, true} {
								out = append(out, Format{CRLF: crlf, Indent: ind, FileIndent: fi, Annot: annot, FPSP: fpsp, ElidedOld: eo, CreatedIn: ci})
							}
						}
					}
				}
			}
		}
	}
	return out
}

// PathToPrefix is cmd/internal/objabi.PathToPrefix: how the linker escapes a
// package path inside a symbol name.
func PathToPrefix(s string) string {
	slash := strings.LastIndex(s, "/")
	var b strings.Builder
	const hex = "0123456789abcdef"
	for r := 0; r < len(s); r++ {
		c := s[r]
		if c <= ' ' || (c == '.' && r > slash) || c == '%' || c == '"' || c >= 0x7F {
			b.WriteByte('%')
			b.WriteByte(hex[c>>4])
			b.WriteByte(hex[c&0xF])
		} else {
			b.WriteByte(c)
		}
	}
	return b.String()
}

// Raw is the symbol as printed in a traceback.
func (s Sym) Raw() string {
	if s.NoDot {
		return s.Name
	}
	return PathToPrefix(s.Pkg) + "." + s.Name
}

// Complete is the demangled complete name.
func (s Sym) Complete() string {
	if s.NoDot {
		return s.Name
	}
	return s.Pkg + "." + s.Name
}

// DirName is the last element of the package path.
func (s Sym) DirName() string {
	if s.NoDot {
		return ""
	}
	if i := strings.LastIndexByte(s.Pkg, '/'); i >= 0 {
		return s.Pkg[i+1:]
	}
	return s.Pkg
}

func writeArg(b *bytes.Buffer, a *Arg) {
	switch {
	case a.TooLarge:
		b.WriteString("_")
	case a.Agg:
		b.WriteByte('{')
		for i := range a.Fields {
			if i > 0 {
				b.WriteString(", ")
			}
			writeArg(b, &a.Fields[i])
		}
		if a.Elided {
			if len(a.Fields) > 0 {
				b.WriteString(", ")
			}
			b.WriteString("...")
		}
		b.WriteByte('}')
	default:
		b.WriteString("0x")
		b.WriteString(strconv.FormatUint(a.Value, 16))
		if a.Inaccurate {
			b.WriteByte('?')
		}
	}
}

// String prints the argument list as the runtime does.
func (a *Args) String() string {
	var b bytes.Buffer
	for i := range a.Vals {
		if i > 0 {
			b.WriteString(", ")
		}
		writeArg(&b, &a.Vals[i])
	}
	if a.Elided {
		if len(a.Vals) > 0 {
			b.WriteString(", ")
		}
		b.WriteString("...")
	}
	return b.String()
}

// Render prints the dump.
func (d *Dump) Render() []byte {
	out, _ := d.RenderSpans()
	return out
}

// RenderSpans prints the dump and returns the offset at which each
// goroutine's header line starts (the blank separator line before it belongs
// to the previous goroutine), plus the total length as last element.
func (d *Dump) RenderSpans() ([]byte, []int) {
	var spans []int
	var b bytes.Buffer
	eol := "\n"
	if d.F.CRLF {
		eol = "\r\n"
	}
	ind := d.F.Indent
	fi := d.F.FileIndent
	if fi == "" {
		fi = "\t"
	}
	for gi := range d.Gs {
		g := &d.Gs[gi]
		if gi > 0 {
			if d.F.IndentBlank {
				b.WriteString(ind)
			}
			b.WriteString(eol)
		}
		spans = append(spans, b.Len())
		b.WriteString(ind)
		fmt.Fprintf(&b, "goroutine %d", g.ID)
		switch d.F.Annot {
		case 1:
			fmt.Fprintf(&b, " gp=0x%x m=nil", 0xc000000000+uint64(g.ID%4096)*0x1c0)
		case 2:
			fmt.Fprintf(&b, " gp=0x%x m=%d mp=0x%x", 0xc000000000+uint64(g.ID%4096)*0x1c0, g.ID%7, 0x56e3c0+uint64(g.ID%16)*64)
		}
		b.WriteString(" [")
		b.WriteString(g.State)
		if g.Minutes > 0 {
			fmt.Fprintf(&b, ", %d minutes", g.Minutes)
		}
		if g.Locked {
			b.WriteString(", locked to thread")
		}
		for _, e := range g.ExtraItems {
			b.WriteString(", " + e)
		}
		b.WriteString("]:")
		b.WriteString(eol)
		if g.Unavailable {
			b.WriteString(ind + fi + "goroutine running on other thread; stack unavailable" + eol)
		}
		for i := range g.Frames {
			f := &g.Frames[i]
			b.WriteString(ind)
			b.WriteString(f.Sym.Raw())
			b.WriteByte('(')
			b.WriteString(f.Args.String())
			b.WriteByte(')')
			b.WriteString(eol)
			b.WriteString(ind + fi)
			b.WriteString(f.File)
			fmt.Fprintf(&b, ":%d", f.Line)
			if f.PCOff != 0 {
				fmt.Fprintf(&b, " +0x%x", f.PCOff)
			}
			if d.F.FPSP >= 1 {
				fmt.Fprintf(&b, " fp=0x%x sp=0x%x", f.FP|0xc000000000, f.SP|0xc000000000)
				if d.F.FPSP >= 2 {
					fmt.Fprintf(&b, " pc=0x%x", f.PC|0x400000)
				}
			}
			b.WriteString(eol)
			if g.ElidedAfter == i+1 {
				if d.F.ElidedOld {
					b.WriteString(ind + "...additional frames elided..." + eol)
				} else {
					fmt.Fprintf(&b, "%s...%d frames elided...%s", ind, g.ElidedCount, eol)
				}
			}
		}
		if c := g.Creator; c != nil {
			b.WriteString(ind + "created by " + c.Sym.Raw())
			if d.F.CreatedIn && c.Parent != 0 {
				fmt.Fprintf(&b, " in goroutine %d", c.Parent)
			}
			b.WriteString(eol)
			b.WriteString(ind + fi + c.File)
			fmt.Fprintf(&b, ":%d", c.Line)
			if c.PCOff != 0 {
				fmt.Fprintf(&b, " +0x%x", c.PCOff)
			}
			b.WriteString(eol)
		}
	}
	if d.F.TrailBlank {
		b.WriteString(eol)
	}
	out := b.Bytes()
	if d.F.NoFinalEOL && !d.F.TrailBlank {
		out = bytes.TrimSuffix(out, []byte(eol))
	}
	spans = append(spans, len(out))
	return out, spans
}

// ---------------------------------------------------------------------------
// Alphabets.

// States are the wait-reason / status strings of Go 1.4 .. 1.26.
var States = []string{
	"running", "runnable", "syscall", "waiting", "idle", "dead", "copystack", "preempted", "enqueue",
	"chan receive", "chan send", "chan receive (nil chan)", "chan send (nil chan)", "select", "select (no cases)",
	"sleep", "IO wait", "semacquire", "semarelease", "sync.Mutex.Lock", "sync.RWMutex.RLock", "sync.RWMutex.Lock",
	"sync.Cond.Wait", "sync.WaitGroup.Wait", "finalizer wait", "cleanup wait", "GC assist wait", "GC assist marking", "GC sweep wait",
	"GC scavenge wait", "GC worker (idle)", "GC worker (active)", "force gc (idle)", "GC mark termination", "wait for GC cycle",
	"garbage collection", "garbage collection scan", "panicwait", "timer goroutine (idle)", "trace reader (blocked)",
	"debug call", "stopping the world", "flushing proc caches", "trace goroutine status", "trace proc status",
	"page trace flush", "coroutine", "GC weak to strong wait", "synctest.Run", "synctest.Wait",
	"chan receive (synctest)", "chan send (synctest)", "select (synctest)", "sync.WaitGroup.Wait (synctest)",
	"dumping heap", "wait for debug call", "mark wait (idle)", "Concurrent GC wait", "scanrunnable", "scanrunning",
	"scansyscall", "scanwaiting", "runnable (scan)", "GC assist wait (scan)", "wait until GC ends", "goroutine profiler limiter",
}

// Pkgs are package import paths of all shapes.
var Pkgs = []string{
	"main", "runtime", "sync", "net/http", "os/signal", "internal/poll", "runtime/internal/atomic",
	"github.com/maruel/panicparse/v2/stack", "gopkg.in/yaml.v2", "gopkg.in/yaml.v3", "example.com/foo.bar/baz.qux",
	"github.com/user/repo-name/pkg_x", "golang.org/x/sync/errgroup", "k8s.io/client-go/tools/cache",
	"vendor/golang.org/x/net/http2/hpack", "example.com/a/vendor/github.com/b/c", "github.com/x/y@v1.2.3/z",
	"example.com/héllo/wörld", "example.com/日本語/パッケージ", "example.com/with space/p", "example.com/pct%/p",
	"example.com/quo\"te/p", "foo.bar", "a", "example.com/~user/pkg", "example.com/v2.0/x.y.z", "example.com/p.",
	"command-line-arguments", "go.opentelemetry.io/otel/sdk/trace", "github.com/example/averyveryverylongmodulename/v2", "gopkg.in/src-d/go-git.v4/plumbing", "example.com/a-b/c_d", "example.com/tilde~/p",
}

// PlusPkgs are package paths containing '+', legal in import paths and not
// escaped by the linker.
var PlusPkgs = []string{"example.com/c++/pkg", "github.com/a+b/x", "gtk+", "example.com/x/lib+"}

// Names are function/method name shapes (the part after the package).
var Names = []string{
	"main", "init", "init.0", "init.func1", "Foo", "foo", "(*T).M", "T.M", "(*T).m", "T.m", "main.func1", "main.func1.2",
	"glob..func1", "(*T).M-fm", "T.M-fm", "(*T).M.func1", "F[...]", "(*T[...]).M", "T[...].M", "F[...].func1", "gopanic",
	"goexit", "_Cfunc_x", "_cgoexp_0123abc_Go", "func·001", "Ünï", "(*Ünï).Mëth", "(*conn).serve", "(*Server).Serve",
	"Foo.bar.Baz", "(*T).M.deferwrap1", "f.gowrap1", "f.func1.gowrap2", "x.(*y).z", "type..eq.T", "(*T).M.jump3",
	// names with spaces: methods promoted through anonymous struct types, generated equality functions
	"(*struct { sync.Mutex; n int }).Lock", "struct { A interface {}; B string }.String", "eq.struct { A interface {}; B string }", "F[struct { x int }]",
}

// CNames are symbols without any dot (C code, old runtimes).
var CNames = []string{"foo", "_cgo_sys_thread_start", "crosscall_amd64", "x_cgo_thread_start", "my_c_func"}

// Dirs and files.
var fileDirs = []string{
	"/usr/lib/go/src/runtime", "/home/user/go/src/github.com/foo/bar", "/root/go/pkg/mod/github.com/x/y@v1.2.3/z",
	"C:/Users/me/go/src/app", "/path with space/src/a b", "/tmp/go-build123456/b001/_test", "/home/ü/プロジェクト", "/a",
	"/very/deep/path/a/b/c/d/e/f/g", "", "/golang/go1.26/src/net/http", "/w", "c:/go/src/os", "/x.go/y.s",
	"/home/user/My%20Project/cmd", "/data/100%done/%s/%d", // per cent signs: a path is data, never a format
}
var fileNames = []string{
	"main.go", "proc.go", "asm_amd64.s", "cgo.c", "_testmain.go", "foo_test.go", "a b.go", "ünï.go", "x.y.z.go", "z.go", "sys_linux_amd64.s", "_cgo_export.c",
}

// Values at interesting boundaries.
var boundaryValues = []uint64{
	0, 1, 9, 10, 255, 512*1024 - 1, 512 * 1024, 512*1024 + 1, 1 << 20, 0xc000012345, 0xc00001c0a0, 0x7ffe12345678,
	1<<63 - 2, 1<<63 - 1, 1 << 63, 1<<64 - 1, 0x4a5b60, 0x1234, 0xdeadbeef,
}

// Cfg bounds a generated dump.
type Cfg struct {
	MaxG       int
	MaxFrames  int
	MaxDepth   int
	MaxArgs    int
	PtrPool    []uint64 // if set, pointer values come from this pool (forces recurrence)
	AllowPlus  bool     // package paths with '+'
	LongLines  bool     // some lines > 16 KiB
	NoUnavail  bool
	FewShapes  bool // draw frames from a small pool so that goroutines are similar
	FixedFmt   *Format
	NoCreator  bool
	UniqueSigs bool
	// Decoys: some files lie under no Go root but their tail names a file that
	// exists under a real GOROOT/src (e.g. /a/sort/sort.go).
	Decoys bool
}

// DecoyFiles have a tail that exists under $GOROOT/src.
var DecoyFiles = []string{"/a/sort/sort.go", "/home/u/proj/sort/sort.go", "/x/fmt/print.go", "/w/os/file.go", "/q/src/fmt/print.go", "/srv/app/net/http/server.go",
	"/fmt/print.go", "/go/pkg/mod/fmt/print.go", "//sort/sort.go", "/a/b/c/d/runtime/proc.go", "sort/sort.go", "/src/sort/sort.go", "/pkg/mod/sort/sort.go"}

func genValue(r *core.Rand, cfg *Cfg) uint64 {
	if len(cfg.PtrPool) > 0 && r.Chance(2, 3) {
		return cfg.PtrPool[r.Intn(len(cfg.PtrPool))]
	}
	switch r.Intn(6) {
	case 0:
		return boundaryValues[r.Intn(len(boundaryValues))]
	case 1:
		return uint64(r.Intn(16))
	case 2:
		return 0xc000000000 + uint64(r.Intn(1<<20))*8
	case 3:
		return r.U64()
	case 4:
		return r.U64() >> uint(r.Intn(64))
	default:
		return uint64(r.Intn(1 << 16))
	}
}

func genArg(r *core.Rand, cfg *Cfg, depth int) Arg {
	if depth == 0 && cfg.MaxDepth >= 2 && r.Chance(1, 40) {
		// a chain of aggregates down to the deepest level the runtime prints
		a := Arg{Value: genValue(r, cfg)}
		for d := 0; d < cfg.MaxDepth; d++ {
			a = Arg{Agg: true, Fields: []Arg{a}}
			if r.Chance(1, 3) {
				a.Fields = append(a.Fields, Arg{Value: genValue(r, cfg)})
			}
		}
		return a
	}
	k := r.Intn(20)
	switch {
	case k == 0:
		return Arg{TooLarge: true}
	case k <= 4 && depth < cfg.MaxDepth:
		n := r.Intn(4)
		a := Arg{Agg: true}
		for i := 0; i < n; i++ {
			a.Fields = append(a.Fields, genArg(r, cfg, depth+1))
		}
		a.Elided = r.Chance(1, 6)
		return a
	default:
		return Arg{Value: genValue(r, cfg), Inaccurate: r.Chance(1, 8)}
	}
}

// GenArgs makes an argument list.
func GenArgs(r *core.Rand, cfg *Cfg) Args {
	max := cfg.MaxArgs
	if max == 0 {
		max = 6
	}
	n := r.Intn(max + 1)
	var a Args
	for i := 0; i < n; i++ {
		a.Vals = append(a.Vals, genArg(r, cfg, 0))
	}
	a.Elided = r.Chance(1, 8)
	return a
}

// GenSym makes a symbol.
func GenSym(r *core.Rand, cfg *Cfg) Sym {
	if r.Chance(1, 25) {
		return Sym{NoDot: true, Name: r.Pick(CNames)}
	}
	pk := r.Pick(Pkgs)
	if cfg.AllowPlus && r.Chance(1, 12) {
		pk = r.Pick(PlusPkgs)
	}
	return Sym{Pkg: pk, Name: r.Pick(Names)}
}

// GenFile makes a file reference.
func GenFile(r *core.Rand, cfg *Cfg) string {
	if cfg.Decoys && r.Chance(1, 6) {
		return r.Pick(DecoyFiles)
	}
	switch r.Intn(30) {
	case 0:
		return "??"
	case 1:
		return "<autogenerated>"
	case 2:
		return r.Pick(fileNames) // no directory at all
	}
	d := r.Pick(fileDirs)
	if cfg.LongLines && r.Chance(1, 40) {
		d += "/" + strings.Repeat("longdir/", 2100+r.Intn(200)) + "x"
	}
	return d + "/" + r.Pick(fileNames)
}

func genLine(r *core.Rand) int {
	switch r.Intn(10) {
	case 0:
		return 0
	case 1:
		return 1
	case 2:
		return 999999999999999999
	default:
		return 1 + r.Intn(5000)
	}
}

func genFrame(r *core.Rand, cfg *Cfg) Frame {
	f := Frame{Sym: GenSym(r, cfg), Args: GenArgs(r, cfg), File: GenFile(r, cfg), Line: genLine(r)}
	if r.Chance(5, 6) {
		f.PCOff = uint64(1 + r.Intn(0xffff))
	}
	f.FP, f.SP, f.PC = uint64(r.Intn(1<<24))*8, uint64(r.Intn(1<<24))*8, uint64(r.Intn(1<<24))
	if cfg.LongLines && r.Chance(1, 60) {
		// An argument list far longer than the read buffer.
		n := 2000 + r.Intn(3000)
		f.Args = Args{}
		for i := 0; i < n; i++ {
			f.Args.Vals = append(f.Args.Vals, Arg{Value: genValue(r, cfg)})
		}
	}
	return f
}

// GenID makes a goroutine id < 10^18 not in used.
func GenID(r *core.Rand, used map[int]bool) int {
	for {
		var id int
		switch r.Intn(5) {
		case 0:
			id = 1 + r.Intn(20)
		case 1:
			id = 1 + r.Intn(100000)
		case 2:
			id = 999999999999999999 - r.Intn(5)
		case 3:
			id = int(r.U64() % 999999999999999999)
		default:
			id = 1 + r.Intn(500)
		}
		if id > 0 && !used[id] {
			used[id] = true
			return id
		}
	}
}

// GenGoroutine makes one goroutine.
func GenGoroutine(r *core.Rand, cfg *Cfg, used map[int]bool, pool []Frame) Goroutine {
	g := Goroutine{ID: GenID(r, used), State: r.Pick(States)}
	if r.Chance(1, 4) {
		g.Minutes = 1 + r.Intn(100000)
	}
	g.Locked = r.Chance(1, 5)
	if r.Chance(1, 30) {
		g.ExtraItems = []string{fmt.Sprintf("synctest bubble %d", 1+r.Intn(9))}
	}
	if !cfg.NoUnavail && r.Chance(1, 15) {
		g.Unavailable = true
	} else {
		nf := 1
		switch r.Intn(12) {
		case 0:
			nf = cfg.MaxFrames
		case 1, 2, 3:
			nf = 1 + r.Intn(3)
		default:
			nf = 1 + r.Intn(minInt(cfg.MaxFrames, 12))
		}
		if nf < 1 {
			nf = 1
		}
		for i := 0; i < nf; i++ {
			if len(pool) > 0 {
				g.Frames = append(g.Frames, pool[r.Intn(len(pool))])
			} else {
				g.Frames = append(g.Frames, genFrame(r, cfg))
			}
		}
		if r.Chance(1, 10) {
			g.ElidedAfter = 1 + r.Intn(nf)
			g.ElidedCount = 1 + r.Intn(5000)
		}
	}
	if !cfg.NoCreator && r.Chance(2, 3) {
		c := &Creator{Sym: GenSym(r, cfg), File: GenFile(r, cfg), Line: genLine(r), PCOff: uint64(r.Intn(0xfff))}
		if r.Bool() {
			c.Parent = 1 + r.Intn(1000)
		}
		g.Creator = c
	}
	return g
}

func minInt(a, b int) int {
	if a < b {
		return a
	}
	return b
}

// GenDump makes a dump. fmtIdx selects the format combination.
func GenDump(r *core.Rand, cfg *Cfg, fmtIdx int) *Dump {
	d := &Dump{}
	if cfg.FixedFmt != nil {
		d.F = *cfg.FixedFmt
	} else {
		all := AllFormats()
		d.F = all[fmtIdx%len(all)]
	}
	d.F.NoFinalEOL = r.Chance(1, 10)
	d.F.TrailBlank = r.Chance(1, 4)
	d.F.IndentBlank = d.F.Indent != "" && r.Chance(1, 3)
	ng := 1
	switch r.Intn(8) {
	case 0:
		ng = 1
	case 1:
		ng = cfg.MaxG
	default:
		ng = 1 + r.Intn(minInt(cfg.MaxG, 6))
	}
	if ng < 1 {
		ng = 1
	}
	var pool []Frame
	if cfg.FewShapes {
		for i := 0; i < 4; i++ {
			pool = append(pool, genFrame(r, cfg))
		}
	}
	used := map[int]bool{}
	for i := 0; i < ng; i++ {
		d.Gs = append(d.Gs, GenGoroutine(r, cfg, used, pool))
	}
	return d
}

// EOL returns the line terminator of the dump.
func (d *Dump) EOL() string {
	if d.F.CRLF {
		return "\r\n"
	}
	return "\n"
}
