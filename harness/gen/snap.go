package gen

import (
	"fmt"

	"github.com/maruel/panicparse/v2/stack"
)

// SnapVariant is one goroutine signature of the G-SNAP universe, built
// directly from exported structs.
type SnapVariant struct {
	Desc string
	Sig  stack.Signature
}

func mkFunc(raw string) stack.Func {
	var f stack.Func
	if err := f.Init(raw); err != nil {
		panic(err)
	}
	return f
}

// MkCall builds a call frame from exported fields only.
func MkCall(fn, file string, line int, loc stack.Location, args stack.Args) stack.Call {
	c := stack.Call{Func: mkFunc(fn), Args: args, RemoteSrcPath: file, Line: line, Location: loc}
	c.ImportPath = c.Func.ImportPath
	for i := len(file) - 1; i >= 0; i-- {
		if file[i] == '/' {
			c.SrcName = file[i+1:]
			for j := i - 1; j >= 0; j-- {
				if file[j] == '/' {
					c.DirSrc = file[j+1:]
					break
				}
			}
			break
		}
	}
	return c
}

func ptrLike(v uint64) bool { return v > 512*1024 && v < (1<<63)-1 }

// Sc is a scalar argument; pointer-likeness follows the value.
func Sc(v uint64) stack.Arg { return stack.Arg{Value: v, IsPtr: ptrLike(v)} }

// Ag is an aggregate argument.
func Ag(elided bool, f ...stack.Arg) stack.Arg {
	return stack.Arg{IsAggregate: true, Fields: stack.Args{Values: f, Elided: elided}}
}

// TooLarge is the "_" argument.
func TooLarge() stack.Arg { return stack.Arg{IsOffsetTooLarge: true} }

const (
	p1 = 0xc000012340
	p2 = 0xc000056780
	p3 = 0xc0000abcd0
)

// stackVariants differ in exactly the attributes each similarity level must respect or ignore.
func stackVariants(full bool) []struct {
	desc string
	st   stack.Stack
} {
	type sv = struct {
		desc string
		st   stack.Stack
	}
	one := func(fn, file string, line int, a ...stack.Arg) stack.Stack {
		return stack.Stack{Calls: []stack.Call{MkCall(fn, file, line, stack.LocationUnknown, stack.Args{Values: a})}}
	}
	const F, FILE = "main.f", "/src/app/main.go"
	out := []sv{
		{"f(1,p1)", one(F, FILE, 10, Sc(1), Sc(p1))},
		{"f(1,p2)", one(F, FILE, 10, Sc(1), Sc(p2))},
		{"f(2,p1)", one(F, FILE, 10, Sc(2), Sc(p1))},
		// non-pointers where other goroutines have pointers: they must stay apart from pointers at AnyPointer, also
		// once the bucket key holds '*' there
		{"f(1,0)", one(F, FILE, 10, Sc(1), Sc(0))},
		{"f(1,7)", one(F, FILE, 10, Sc(1), Sc(7))},
		{"f({1,0})", one(F, FILE, 10, Ag(false, Sc(1), Sc(0)))},
		{"f(1)", one(F, FILE, 10, Sc(1))},
		{"f({1,p1})", one(F, FILE, 10, Ag(false, Sc(1), Sc(p1)))},
		{"f({1,p2})", one(F, FILE, 10, Ag(false, Sc(1), Sc(p2)))},
		{"f({2,p1})", one(F, FILE, 10, Ag(false, Sc(2), Sc(p1)))},
		{"g(1,p1)", one("main.g", FILE, 10, Sc(1), Sc(p1))},
		{"f(1,p1)@11", one(F, FILE, 11, Sc(1), Sc(p1))},
		{"f(1,p1)@other.go", one(F, "/src/app/other.go", 10, Sc(1), Sc(p1))},
		// same directory and file name under another root (a vendored copy, a second checkout)
		{"f(1,p1)@otherroot", one(F, "/other/checkout/src/app/main.go", 10, Sc(1), Sc(p1))},
		{"f(_,p1)", one(F, FILE, 10, TooLarge(), Sc(p1))},
		{"f(0,p1)", one(F, FILE, 10, Sc(0), Sc(p1))}, // differs from f(_,p1) only by the too-large marker
		{"f(1,p1)+h(3)", stack.Stack{Calls: []stack.Call{MkCall(F, FILE, 10, 0, stack.Args{Values: []stack.Arg{Sc(1), Sc(p1)}}), MkCall("main.h", FILE, 20, 0, stack.Args{Values: []stack.Arg{Sc(3)}})}}},
		{"f(1,p2)+h(4)", stack.Stack{Calls: []stack.Call{MkCall(F, FILE, 10, 0, stack.Args{Values: []stack.Arg{Sc(1), Sc(p2)}}), MkCall("main.h", FILE, 20, 0, stack.Args{Values: []stack.Arg{Sc(4)}})}}},
	}
	// same value printed as inaccurate ("0x1?"): the properties do not let this flag separate goroutines,
	// and it must not make the relation non-transitive either
	inacc := Sc(1)
	inacc.IsInaccurate = true
	out = append(out, sv{"f(1?,p1)", one(F, FILE, 10, inacc, Sc(p1))})
	inacc2 := Sc(2)
	inacc2.IsInaccurate = true
	out = append(out, sv{"f(2?,p1)", one(F, FILE, 10, inacc2, Sc(p1))})
	el := one(F, FILE, 10, Sc(1), Sc(p1))
	el.Elided = true
	out = append(out, sv{"f(1,p1) elided-frames", el})
	// an elision INSIDE an aggregate, three times with another pointer: the merged key must stay in the class of the
	// third; and a file whose name differs by letter case only (base context only, see Universe)
	out = append(out,
		sv{"f({1,p2,...})", one(F, FILE, 10, Ag(true, Sc(1), Sc(p2)))},
		sv{"f({1,p3,...})", one(F, FILE, 10, Ag(true, Sc(1), Sc(p3)))},
		sv{"f(1,p1)@Main.go", one(F, "/src/app/Main.go", 10, Sc(1), Sc(p1))},
		sv{"F(1,p1)", one("main.F", FILE, 10, Sc(1), Sc(p1))}, // the function's name differs by letter case only
	)
	if !full {
		out = append(out, sv{"f({1,p1,...})", one(F, FILE, 10, Ag(true, Sc(1), Sc(p1)))})
	}
	if full {
		ae := stack.Stack{Calls: []stack.Call{MkCall(F, FILE, 10, 0, stack.Args{Values: []stack.Arg{Sc(1), Sc(p1)}, Elided: true})}}
		out = append(out,
			sv{"f(1,p1,...)", ae},
			sv{"f(1,p3)", one(F, FILE, 10, Sc(1), Sc(p3))},
			sv{"f(3,p1)", one(F, FILE, 10, Sc(3), Sc(p1))},
			sv{"f({1,{p1}})", one(F, FILE, 10, Ag(false, Sc(1), Ag(false, Sc(p1))))},
			sv{"f({1,{p2}})", one(F, FILE, 10, Ag(false, Sc(1), Ag(false, Sc(p2))))},
			sv{"f({1,p1,...})", one(F, FILE, 10, Ag(true, Sc(1), Sc(p1)))},
			sv{"f(512Ki,p1)", one(F, FILE, 10, Sc(512*1024), Sc(p1))},
			sv{"f(512Ki+1,p1)", one(F, FILE, 10, Sc(512*1024+1), Sc(p1))},
			sv{"f(p1,1)", one(F, FILE, 10, Sc(p1), Sc(1))},
			sv{"f(1,_)", one(F, FILE, 10, Sc(1), TooLarge())},
			sv{"f()", one(F, FILE, 10)},
			sv{"unavailable", stack.Stack{Calls: []stack.Call{{RemoteSrcPath: "<unavailable>"}}}},
		)
	}
	return out
}

// baseOnly variants appear in the base context (first state, not locked, no sleep, no creator) only.
var baseOnly = map[string]bool{"f({1,p1,...})": true, "f({1,p2,...})": true, "f({1,p3,...})": true, "f(1,p1)@Main.go": true, "F(1,p1)": true}

// Universe builds the signature universe. size: "small" (a star of ~140 signatures), "medium" (nearly the full product, ~530), "large" (full product with more contexts and stack variants).
func Universe(size string) []SnapVariant {
	// the third state differs from the first by the runtime's parenthesised qualifier only
	states := []string{"chan receive", "select", "chan receive (nil chan)"}
	lockeds := []bool{false, true}
	// 3 and 90 minutes only with the first two stacks in the otherwise base context (see below): four sleep values
	// of one signature meet in every order, so a minimum or maximum that depends on the arrival order shows
	sleeps := []int{0, 7, 3, 90}
	creators := []stack.Stack{
		{},
		{Calls: []stack.Call{MkCall("main.spawnA", "/src/app/spawn.go", 30, 0, stack.Args{})}},
		{Calls: []stack.Call{MkCall("main.spawnB", "/src/app/spawn.go", 30, 0, stack.Args{})}},
	}
	// creator stacks of several calls (race reports print the whole creation stack): the same first call, another
	// deeper one
	creators = append(creators,
		stack.Stack{Calls: []stack.Call{MkCall("main.spawnA", "/src/app/spawn.go", 30, 0, stack.Args{}), MkCall("main.startX", "/src/app/start.go", 40, 0, stack.Args{})}},
		stack.Stack{Calls: []stack.Call{MkCall("main.spawnA", "/src/app/spawn.go", 30, 0, stack.Args{}), MkCall("main.startY", "/src/app/start.go", 41, 0, stack.Args{})}},
	)
	full := size == "large"
	if full {
		sleeps = []int{0, 7, 90, 3}
		creators = append(creators,
			stack.Stack{Calls: []stack.Call{MkCall("main.spawnA", "/src/app/spawn.go", 31, 0, stack.Args{})}},
			stack.Stack{Calls: []stack.Call{MkCall("main.spawnA", "/src/app/spawn2.go", 30, 0, stack.Args{})}},
			stack.Stack{Calls: []stack.Call{MkCall("main.spawnA", "/other/checkout/src/app/spawn.go", 30, 0, stack.Args{})}},
		)
	}
	// go1.21+ creator lines ("created by f in goroutine N"): the same function started by two parents from two
	// different lines - the parent id must not make the creator's position irrelevant
	inIdx := len(creators)
	creators = append(creators,
		stack.Stack{Calls: []stack.Call{MkCall("main.spawnA in goroutine 7", "/src/app/spawn.go", 30, 0, stack.Args{})}},
		stack.Stack{Calls: []stack.Call{MkCall("main.spawnA in goroutine 8", "/src/app/spawn.go", 31, 0, stack.Args{})}},
	)
	stacks := stackVariants(full)
	var out []SnapVariant
	for si, st := range states {
		for li, lk := range lockeds {
			for sli, sl := range sleeps {
				for ci, cr := range creators {
					for ki, sv := range stacks {
						if size == "small" {
							// a star, not a product: every stack variant in the base context (so that any two of them
							// meet with everything else equal), every context with a few representative stacks
							base := si == 0 && li == 0 && sli == 0 && ci == 0
							rep := ki == 0 || ki == 1 || ki == 2 || ki == 3 || sv.desc == "g(1,p1)" || sv.desc == "f(1,p1) elided-frames"
							if !base && !rep {
								continue
							}
						}
						if (ci == 3 || ci == 4 || ci >= inIdx) && !(si == 0 && li == 0 && sli == 0) {
							continue // the multi-call and the go1.21-style creators only with the base state/lock/sleep (every size)
						}
						if (sl == 3 || (sl == 90 && !full)) && !(si == 0 && li == 0 && ci == 0 && ki < 2) {
							continue
						}
						if baseOnly[sv.desc] && !(si == 0 && li == 0 && sli == 0 && ci == 0) && !(full && sv.desc == "f({1,p1,...})") {
							continue
						}
						if si == 2 && !(li == 0 && sli == 0 && ci == 0) {
							continue // the qualified state only with the base lock/sleep/creator (every size)
						}
						if size == "medium" && sli == 1 && ci == 2 && ki%2 == 1 {
							continue
						}
						out = append(out, SnapVariant{
							Desc: fmt.Sprintf("[%s%s%s] cr%d %s", st, map[bool]string{true: ",locked"}[lk], map[bool]string{true: fmt.Sprintf(",%dmin", sl)}[sl != 0], ci, sv.desc),
							Sig:  stack.Signature{State: st, Locked: lk, SleepMin: sl, SleepMax: sl, CreatedBy: cr, Stack: sv.st},
						})
					}
				}
			}
		}
	}
	return out
}

// CloneArgs deep-copies an argument list.
func CloneArgs(a stack.Args) stack.Args {
	out := stack.Args{Elided: a.Elided}
	if a.Values != nil {
		out.Values = make([]stack.Arg, len(a.Values))
		for i, v := range a.Values {
			out.Values[i] = v
			out.Values[i].Fields = CloneArgs(v.Fields)
		}
	}
	if a.Processed != nil {
		out.Processed = append([]string{}, a.Processed...)
	}
	return out
}

// CloneStack deep-copies a stack.
func CloneStack(s stack.Stack) stack.Stack {
	out := stack.Stack{Elided: s.Elided}
	if s.Calls != nil {
		out.Calls = make([]stack.Call, len(s.Calls))
		for i, c := range s.Calls {
			out.Calls[i] = c
			out.Calls[i].Args = CloneArgs(c.Args)
		}
	}
	return out
}

// CloneSig deep-copies a signature.
func CloneSig(s *stack.Signature) stack.Signature {
	out := *s
	out.CreatedBy = CloneStack(s.CreatedBy)
	out.Stack = CloneStack(s.Stack)
	return out
}

// CloneSnapshot deep-copies a snapshot's goroutines.
func CloneSnapshot(s *stack.Snapshot) *stack.Snapshot {
	out := *s
	out.Goroutines = make([]*stack.Goroutine, len(s.Goroutines))
	for i, g := range s.Goroutines {
		ng := *g
		ng.Signature = CloneSig(&g.Signature)
		out.Goroutines[i] = &ng
	}
	return &out
}

// MkSnapshot builds a snapshot whose goroutines are deep copies of the given
// signatures, with ids 1..n in order and the first one marked First.
func MkSnapshot(sigs []*stack.Signature) *stack.Snapshot {
	s := &stack.Snapshot{}
	for i, sg := range sigs {
		s.Goroutines = append(s.Goroutines, &stack.Goroutine{Signature: CloneSig(sg), ID: i + 1, First: i == 0})
	}
	return s
}

func procArg(a *stack.Arg) string {
	switch {
	case a.IsAggregate:
		out := "T{"
		for i := range a.Fields.Values {
			if i > 0 {
				out += ", "
			}
			out += procArg(&a.Fields.Values[i])
		}
		return out + "}"
	case a.IsOffsetTooLarge:
		return "_"
	case a.Value == 0:
		return "nil"
	}
	return fmt.Sprintf("int(%#x)", a.Value)
}

func resolveStack(st *stack.Stack, processed bool) {
	for i := range st.Calls {
		c := &st.Calls[i]
		if c.RemoteSrcPath == "" || c.RemoteSrcPath[0] != '/' {
			continue
		}
		c.LocalSrcPath = "/local/checkout" + c.RemoteSrcPath
		c.RelSrcPath = c.DirSrc
		c.Location = stack.GoMod
		if processed && len(c.Args.Values) != 0 {
			c.Args.Processed = nil
			for k := range c.Args.Values {
				c.Args.Processed = append(c.Args.Processed, procArg(&c.Args.Values[k]))
			}
		}
	}
}

// Resolve fills, as path guessing and source analysis would, the derived fields of every frame of the snapshot:
// location class, local and relative paths and the typed argument strings. All are functions of the frame's own
// printed content, so similar frames carry the same derived fields and equal values carry equal typed strings.
func Resolve(s *stack.Snapshot) {
	for _, g := range s.Goroutines {
		resolveStack(&g.Stack, true)
		resolveStack(&g.CreatedBy, false)
	}
}
