package gen

import (
	"fmt"
	"strings"

	"verifharness/core"
)

// JunkCfg selects which hazards junk text may contain.
type JunkCfg struct {
	Separators bool // exact "==================" lines and "WARNING: DATA RACE" lines
	Long       bool // lines longer than the 16 KiB buffer
	Binary     bool
	// MixedEOL: now and then a line ends with the other terminator (LF in a CRLF text and vice versa).
	MixedEOL bool
	// StrayCR: in CRLF text, now and then a line that consists of one carriage return ("\r\r\n": not a blank line -
	// one terminator is stripped, a CR remains) or that ends with a CR before its terminator.
	StrayCR bool
}

var logWords = []string{"\x1b[31mERROR\x1b[0m", "\x1b[1;32mok\x1b[m", "\x1b[0m", "\x1b[38;5;208mwarn", "INFO", "WARN", "error:", "server", "started", "listening on :8080", "request", "id=42", "panic:", "runtime error: index out of range [5] with length 3",
	"[signal SIGSEGV: segmentation violation code=0x1 addr=0x0 pc=0x4a5b60]", "exit status 2", "FAIL", "ok", "--- FAIL: TestX (0.00s)", "Found 1 data race(s)", "goroutine", "created", "by"}

var nearMisses = []string{
	"goroutine 12 [", "goroutine x [running]:", "goroutine 12 [running]", "goroutine  12 [running]:", "Goroutine 12 [running]:", "goroutine 12 []:",
	"=================", "===================", "================== ", " ==================", "WARNING: DATA RACE", "WARNING: DATA RACE ",
	"created by", "created by main.main", "panic: boom", "exit status 2", "main.main()", "\t/tmp/x.go:12 +0x1d", "...additional frames elided...",
	"Read at 0x00c000012345 by goroutine 7:", "Previous write at 0x00c000012345 by goroutine 6:", "Goroutine 7 (running) created at:",
	"goroutine 1 [running]:x", "xgoroutine 1 [running]:", "goroutine 1 [running]: ", "goroutine 99999999999999999999 [running]:", "goroutine -1 [running]:",
	"goroutine 1 gp=0x1 [running]:",
}

// JunkLine makes one line of non-dump text (without EOL).
func JunkLine(r *core.Rand, cfg *JunkCfg) string {
	switch k := r.Intn(20); {
	case k == 0:
		return ""
	case k <= 3:
		return r.Pick(nearMisses)
	case k == 4 && cfg.Separators:
		if r.Bool() {
			return "=================="
		}
		return "WARNING: DATA RACE"
	case k == 5 && cfg.Long:
		n := 16384 - 3 + r.Intn(6)
		if r.Chance(1, 3) {
			n = 16384*2 + r.Intn(40000)
		}
		return strings.Repeat("x", n)
	case k == 6 && cfg.Binary:
		n := 1 + r.Intn(40)
		b := make([]byte, n)
		for i := range b {
			c := byte(r.Intn(256))
			if c == '\n' {
				c = 0
			}
			b[i] = c
		}
		return string(b)
	case k == 7:
		return "   \t  "
	default:
		n := 1 + r.Intn(6)
		w := make([]string, n)
		for i := range w {
			w[i] = r.Pick(logWords)
		}
		return fmt.Sprintf("2026/10/02 12:00:%02d %s", r.Intn(60), strings.Join(w, " "))
	}
}

// Junk makes n lines of junk joined and terminated by eol.
func Junk(r *core.Rand, cfg *JunkCfg, n int, eol string) string {
	var b strings.Builder
	for i := 0; i < n; i++ {
		if cfg.StrayCR && eol == "\r\n" && r.Chance(1, 5) {
			if r.Bool() {
				b.WriteString("\r" + eol)
			} else {
				b.WriteString("progress 50%\r" + eol)
			}
		}
		if cfg.Separators && r.Chance(1, 12) {
			// the two opening lines of a race report, indented as a whole: not a report by the documented format
			// (only goroutine dumps carry an indentation), so plain text - whatever follows
			ind := r.Pick([]string{" ", "\t", "    "})
			b.WriteString(ind + "==================" + eol + ind + "WARNING: DATA RACE" + eol)
		}
		b.WriteString(JunkLine(r, cfg))
		if cfg.MixedEOL && r.Chance(1, 4) {
			if eol == "\n" {
				b.WriteString("\r\n")
			} else {
				b.WriteString("\n")
			}
			continue
		}
		b.WriteString(eol)
	}
	return b.String()
}
