package gen

import (
	"bytes"
	"regexp"
	"strings"

	"verifharness/core"
)

// Seg is one segment of a stream: exactly one of Text, Dump, Race is set.
type Seg struct {
	Text BinStr `json:"text,omitempty"`
	Dump *Dump  `json:"dump,omitempty"`
	Race *Race  `json:"race,omitempty"`
}

// Stream is text interleaved with dumps: T0 D1 T1 ... Dk Tk.
type Stream struct {
	Segs []Seg `json:"segs"`
}

// Render concatenates the segments.
func (s *Stream) Render() []byte {
	var b bytes.Buffer
	for i := range s.Segs {
		sg := &s.Segs[i]
		switch {
		case sg.Dump != nil:
			b.Write(sg.Dump.Render())
		case sg.Race != nil:
			b.Write(sg.Race.Render())
		default:
			b.WriteString(string(sg.Text))
		}
	}
	return b.Bytes()
}

// PassThrough is what must survive: the concatenation of the text segments.
func (s *Stream) PassThrough() []byte {
	var b bytes.Buffer
	for i := range s.Segs {
		if s.Segs[i].Dump == nil && s.Segs[i].Race == nil {
			b.WriteString(string(s.Segs[i].Text))
		}
	}
	return b.Bytes()
}

// NumDumps counts dumps and race reports.
func (s *Stream) NumDumps() int {
	n := 0
	for i := range s.Segs {
		if s.Segs[i].Dump != nil || s.Segs[i].Race != nil {
			n++
		}
	}
	return n
}

var ownHeaderRe = regexp.MustCompile(`^[ \t]*goroutine \d+ .*\[.*\]:$`)

// cannotContinue tells, by the format's own rules, that a line directly after
// a goroutine dump cannot be taken for a continuation of it.
func cannotContinue(line string, afterTrailBlank bool) bool {
	t := strings.TrimRight(line, "\r\n")
	if ownHeaderRe.MatchString(t) {
		return false
	}
	if afterTrailBlank {
		return true // only a goroutine header continues after the blank line
	}
	if t == "" {
		return false
	}
	if strings.HasSuffix(t, ")") && strings.Contains(t, "(") {
		return false
	}
	if strings.HasPrefix(t, "created by ") {
		return false
	}
	if strings.HasPrefix(t, "...") && strings.HasSuffix(t, "elided...") {
		return false
	}
	return true
}

// StreamCfg bounds a generated stream.
type StreamCfg struct {
	MaxDumps   int
	Junk       JunkCfg
	DumpCfg    Cfg
	RaceChance int // out of 10
	// EndWithheld makes the stream end with "==================" (and maybe
	// "WARNING: DATA RACE"): the known-finding class.
	EndWithheld      int
	NoFinalEOLChance int // out of 10: last text line unterminated
}

// GenStream makes a stream.
func GenStream(r *core.Rand, cfg *StreamCfg) *Stream {
	s := &Stream{}
	k := r.Intn(cfg.MaxDumps + 1)
	eol := "\n"
	if r.Chance(1, 5) {
		eol = "\r\n"
	}
	text := func(n int) string { return Junk(r, &cfg.Junk, n, eol) }
	if r.Chance(3, 4) {
		s.Segs = append(s.Segs, Seg{Text: BinStr(text(r.Intn(5)))})
	}
	all := AllFormats()
	for i := 0; i < k; i++ {
		last := i == k-1
		if r.Intn(10) < cfg.RaceChance {
			rc := GenRace(r, &RaceCfg{MaxOps: 4, MaxFrames: 5, CreateMode: r.Intn(3)})
			rc.CRLF = eol == "\r\n"
			rc.NoFinalEOL = false
			s.Segs = append(s.Segs, Seg{Race: rc})
			if !last || r.Chance(2, 3) {
				s.Segs = append(s.Segs, Seg{Text: BinStr(text(r.Intn(4)))})
			} else if r.Chance(1, 3) {
				rc.NoFinalEOL = true
			}
			continue
		}
		dc := cfg.DumpCfg
		d := GenDump(r, &dc, r.Intn(len(all)))
		d.F.CRLF = eol == "\r\n"
		d.F.NoFinalEOL = false
		s.Segs = append(s.Segs, Seg{Dump: d})
		follow := !last || r.Chance(2, 3)
		if lg := &d.Gs[len(d.Gs)-1]; follow && lg.Unavailable && lg.Creator == nil {
			// By the documented grammar an unavailable stack is followed by a
			// blank line or a "created by" line only.
			d.F.TrailBlank = true
		}
		if !follow {
			d.F.NoFinalEOL = r.Chance(1, 4) && !d.F.TrailBlank
			continue
		}
		// Text after a goroutine dump: its first line must not be able to
		// continue the dump, and carries the dump's indentation.
		var first string
		for {
			first = JunkLine(r, &cfg.Junk) // may be longer than the 16 KiB read buffer
			if cannotContinue(first, d.F.TrailBlank) && cannotContinue(d.F.Indent+first, d.F.TrailBlank) && (first != "" || d.F.Indent == "") {
				break
			}
		}
		if first == "==================" && !(d.F.Indent == "") {
			first = "x" + first
		}
		if cfg.Junk.StrayCR && eol == "\r\n" && r.Chance(1, 3) {
			// "\r\r\n": one terminator is stripped, a carriage return remains - not a blank line, not a frame: it ends the dump
			first = "\r"
		}
		if last && r.Chance(1, 25) {
			// the line that ends the last dump is the last of the stream, unterminated and as long as the scanner's
			// read buffer, give or take a byte
			s.Segs = append(s.Segs, Seg{Text: BinStr(d.F.Indent + strings.Repeat("y", 16384-len(d.F.Indent)+r.Intn(3)-1))})
			continue
		}
		s.Segs = append(s.Segs, Seg{Text: BinStr(d.F.Indent + first + eol + text(r.Intn(3)))})
	}
	if cfg.EndWithheld > 0 {
		t := "=================="
		switch cfg.EndWithheld {
		case 1:
			t += eol
		case 2:
			t += eol + "WARNING: DATA RACE"
		default:
			t += eol + "WARNING: DATA RACE" + eol
		}
		s.Segs = append(s.Segs, Seg{Text: BinStr(t)})
	} else if n := len(s.Segs); n > 0 && s.Segs[n-1].Dump == nil && s.Segs[n-1].Race == nil && r.Intn(10) < cfg.NoFinalEOLChance {
		s.Segs[n-1].Text = BinStr(strings.TrimSuffix(string(s.Segs[n-1].Text), eol))
	}
	// merge adjacent text segments
	var out []Seg
	for _, sg := range s.Segs {
		if sg.Dump == nil && sg.Race == nil {
			if sg.Text == "" {
				continue
			}
			if n := len(out); n > 0 && out[n-1].Dump == nil && out[n-1].Race == nil {
				out[n-1].Text += sg.Text
				continue
			}
		}
		out = append(out, sg)
	}
	for i := range out {
		if out[i].Dump == nil && out[i].Race == nil {
			out[i].Text = BinStr(defuseRaceStart(string(out[i].Text)))
		}
	}
	s.Segs = out
	return s
}

var ownOpRe = regexp.MustCompile(`^(Read|Write) at 0x[0-9a-f]+ by goroutine \d+:\r?$`)

// defuseRaceStart makes sure junk does not contain, by chance, the three
// consecutive lines that legitimately start a race report.
func defuseRaceStart(t string) string {
	lines := strings.SplitAfter(t, "\n")
	for i := 0; i+2 < len(lines); i++ {
		if strings.TrimRight(lines[i], "\r\n") == "==================" && strings.TrimRight(lines[i+1], "\r\n") == "WARNING: DATA RACE" && (ownOpRe.MatchString(strings.TrimRight(lines[i+2], "\n")) || ownOpRe.MatchString(strings.TrimRight(lines[i+2], "\r\n"))) {
			lines[i+2] = "x" + lines[i+2]
		}
	}
	return strings.Join(lines, "")
}

// DefuseRaceStart is defuseRaceStart for text built outside GenStream.
func DefuseRaceStart(t string) string { return defuseRaceStart(t) }

// Normalize applies the same junk post-processing as GenStream to a
// hand-built stream.
func Normalize(s *Stream) *Stream {
	for i := range s.Segs {
		if s.Segs[i].Dump == nil && s.Segs[i].Race == nil {
			s.Segs[i].Text = BinStr(defuseRaceStart(string(s.Segs[i].Text)))
		}
	}
	return s
}
