package gen

import (
	"fmt"
	"math"
	"strconv"
	"strings"

	"verifharness/core"
)

// G-PROG: Go programs with known literal arguments in every frame.

// ProgParam is one parameter of a generated function with the value passed.
type ProgParam struct {
	Kind  string `json:"kind"`  // Go type as written in the source
	Lit   string `json:"lit"`   // literal expression passed
	Words int    `json:"words"` // machine words in the traceback
	// Expected rendering: Want is the exact text for value kinds; for
	// pointer-like kinds WantTag is the type tag and the raw pointer comes from the frame.
	Want    string  `json:"want,omitempty"`
	WantTag string  `json:"want_tag,omitempty"`
	Float   float64 `json:"float,omitempty"`
	IsFloat bool    `json:"is_float,omitempty"`
	Len     int     `json:"len,omitempty"`
	Cap     int     `json:"cap,omitempty"`
	Nil     bool    `json:"nil,omitempty"`
	// Unsupported: a kind outside the property's list (interface, struct, array, named types from other
	// packages, variadic): only "no crash, raw values unchanged" is demanded, the comparison of this frame stops here.
	Unsupported bool `json:"unsupported,omitempty"`
}

// ProgFunc is one function of the chain.
type ProgFunc struct {
	Name     string      `json:"name"`               // "f3" or "m3"
	Method   bool        `json:"method"`             // pointer-receiver method
	Recv     string      `json:"recv,omitempty"`     // receiver type name (T or U)
	Params   []ProgParam `json:"params"`             // without the receiver
	CallLine int         `json:"call_line"`          // line of the call to the next function (or of the panic)
	Words    int         `json:"words"`              // total words including the receiver
	File     string      `json:"file,omitempty"`     // source file holding the function ("" = main.go)
	Deferred bool        `json:"deferred,omitempty"` // the next function is called by a defer statement: this frame's line is the closing brace
	// Recur: the function calls itself this many times (same arguments) before it calls the next one: its frame
	// occurs Recur+1 times in the traceback, the outer ones on RecurLine.
	Recur     int `json:"recur,omitempty"`
	RecurLine int `json:"recur_line,omitempty"`
}

// Prog is a generated program.
type Prog struct {
	Src   string     `json:"src"`
	Src2  string     `json:"src2,omitempty"` // part2.go when the program has two source files
	Funcs []ProgFunc `json:"funcs"`
}

var progIntKinds = []struct {
	kind   string
	bits   int
	signed bool
}{
	{"int", 64, true}, {"int8", 8, true}, {"int16", 16, true}, {"int32", 32, true}, {"int64", 64, true},
	{"uint", 64, false}, {"uint8", 8, false}, {"uint16", 16, false}, {"uint32", 32, false}, {"uint64", 64, false},
	{"uintptr", 64, false}, {"byte", 8, false}, {"rune", 32, true},
}

func genIntParam(r *core.Rand) ProgParam {
	k := progIntKinds[r.Intn(len(progIntKinds))]
	if k.signed {
		min := -(int64(1) << uint(k.bits-1))
		max := int64(1)<<uint(k.bits-1) - 1
		var v int64
		switch r.Intn(7) {
		case 0:
			v = min
		case 1:
			v = max
		case 2:
			v = -1
		case 3:
			v = 0
		case 4:
			// a value that looks like a pointer (512Ki < v < 2^63) and recurs across frames
			v = []int64{1234567890, 3000000, 600000}[r.Intn(3)]
			if v > max {
				v = max
			}
		default:
			v = int64(r.U64())
			if k.bits < 64 {
				v = v % (max + 1)
			}
		}
		s := strconv.FormatInt(v, 10)
		return ProgParam{Kind: k.kind, Lit: s, Words: 1, Want: s}
	}
	var max uint64 = math.MaxUint64
	if k.bits < 64 {
		max = uint64(1)<<uint(k.bits) - 1
	}
	var v uint64
	switch r.Intn(5) {
	case 0:
		v = 0
	case 1:
		v = max
	default:
		v = r.U64()
		if k.bits < 64 {
			v &= max
		}
	}
	s := strconv.FormatUint(v, 10)
	return ProgParam{Kind: k.kind, Lit: s, Words: 1, Want: s}
}

// GenParam makes a parameter of a supported kind. ptrKinds enables map/chan/func.
func GenParam(r *core.Rand) ProgParam {
	if r.Chance(1, 14) {
		u := []ProgParam{
			{Kind: "interface{}", Lit: "gInt", Words: 2},
			{Kind: "error", Lit: "nil", Words: 2},
			{Kind: "T", Lit: "T{3, 4}", Words: 2},
			{Kind: "[2]int", Lit: "[2]int{5, 6}", Words: 2},
			{Kind: "time.Duration", Lit: "time.Second", Words: 1},
			{Kind: "fmt.Stringer", Lit: "nil", Words: 2},
			{Kind: "struct{ x int }", Lit: "struct{ x int }{7}", Words: 1},
			{Kind: "[]*T", Lit: "nil", Words: 3},
			{Kind: "*[]int", Lit: "nil", Words: 1},
			{Kind: "map[string][]int", Lit: "nil", Words: 1},
			{Kind: "struct{ c <-chan int }", Lit: "struct{ c <-chan int }{gChan}", Words: 1},
		}[r.Intn(11)]
		u.Unsupported = true
		return u
	}
	switch r.Intn(14) {
	case 0:
		b := r.Bool()
		return ProgParam{Kind: "bool", Lit: strconv.FormatBool(b), Words: 1, Want: strconv.FormatBool(b)}
	case 1:
		v := []float64{0, 1.5, -2.25, 1e30, 123456.789, 3.4028234663852886e38, -0.1}[r.Intn(7)]
		return ProgParam{Kind: "float64", Lit: strconv.FormatFloat(v, 'g', -1, 64), Words: 1, IsFloat: true, Float: v}
	case 2:
		v := []float32{0, 1.5, -2.25, 1e30, 123456.79, 3.4028235e38, -0.1}[r.Intn(7)]
		return ProgParam{Kind: "float32", Lit: strconv.FormatFloat(float64(v), 'g', -1, 32), Words: 1, IsFloat: true, Float: float64(v)}
	case 3:
		if r.Chance(1, 8) {
			return ProgParam{Kind: "string", Lit: "gBigStr", Words: 2, WantTag: "string", Len: 600000}
		}
		s := []string{"", "hello", "a longer string with spaces", "ünï"}[r.Intn(4)]
		return ProgParam{Kind: "string", Lit: strconv.Quote(s), Words: 2, WantTag: "string", Len: len(s)}
	case 4:
		switch r.Intn(4) {
		case 0:
			return ProgParam{Kind: "[]int", Lit: "[]int{1, 2, 3}", Words: 3, WantTag: "[]int", Len: 3, Cap: 3}
		case 1:
			return ProgParam{Kind: "[]string", Lit: "make([]string, 2, 7)", Words: 3, WantTag: "[]string", Len: 2, Cap: 7}
		case 2:
			return ProgParam{Kind: "[]byte", Lit: "nil", Words: 3, WantTag: "[]byte", Len: 0, Cap: 0, Nil: true}
		default:
			if r.Chance(1, 3) {
				// length and capacity above the pointer-classification floor
				return ProgParam{Kind: "[]byte", Lit: "gBig", Words: 3, WantTag: "[]byte", Len: 1 << 20, Cap: 1 << 20}
			}
			return ProgParam{Kind: "[]T", Lit: "gSliceT", Words: 3, WantTag: "[]T", Len: 4, Cap: 9}
		}
	case 5:
		if r.Bool() {
			return ProgParam{Kind: "*int", Lit: "&gInt", Words: 1, WantTag: "*int"}
		}
		return ProgParam{Kind: "*T", Lit: "nil", Words: 1, WantTag: "*T", Nil: true}
	case 6:
		if r.Bool() {
			return ProgParam{Kind: "map[string]int", Lit: "gMap", Words: 1, WantTag: "map[string]int"}
		}
		return ProgParam{Kind: "map[string]int", Lit: "nil", Words: 1, WantTag: "map[string]int", Nil: true}
	case 7:
		// a channel of either direction is one word rendered as a channel
		return ProgParam{Kind: []string{"chan int", "<-chan int", "chan<- int"}[r.Intn(3)], Lit: "gChan", Words: 1, WantTag: "chan int"}
	case 8:
		return ProgParam{Kind: "func()", Lit: "gFunc", Words: 1, WantTag: "func"}
	default:
		return genIntParam(r)
	}
}

// GenProg makes a program: one chain of n functions and pointer-receiver methods.
func GenProg(r *core.Rand, n int) *Prog { return GenProgFiles(r, n, false) }

// GenProgFiles is GenProg; with twoFiles the functions alternate between main.go and part2.go (frames with
// arguments in several source files of one snapshot).
func GenProgFiles(r *core.Rand, n int, twoFiles bool) *Prog { return GenProgOpt(r, n, twoFiles, false) }

// genSmallParam makes a one-word parameter whose value fits in 32 bits (but not always in 31).
func genSmallParam(r *core.Rand) ProgParam {
	switch r.Intn(6) {
	case 0:
		b := r.Bool()
		return ProgParam{Kind: "bool", Lit: strconv.FormatBool(b), Words: 1, Want: strconv.FormatBool(b)}
	case 1:
		v := strconv.Itoa([]int{0, 1, 255, 200}[r.Intn(4)])
		return ProgParam{Kind: "uint8", Lit: v, Words: 1, Want: v}
	case 2:
		v := strconv.FormatUint([]uint64{0, 1 << 31, 1<<32 - 1, 65536}[r.Intn(4)], 10)
		return ProgParam{Kind: []string{"uint32", "uint", "uint64", "uintptr"}[r.Intn(4)], Lit: v, Words: 1, Want: v}
	default:
		v := strconv.FormatInt([]int64{1 << 31, 1<<32 - 1, 1<<31 - 1, 1<<31 + 12345, 0, 1, 3000000000}[r.Intn(7)], 10)
		return ProgParam{Kind: []string{"int", "int64", "int"}[r.Intn(3)], Lit: v, Words: 1, Want: v}
	}
}

// GenProgOpt is GenProgFiles; with small no word of the traceback exceeds 32 bits: plain functions only (no
// receivers, no pointers, strings, slices or floats), every value in [0, 2^32).
func GenProgOpt(r *core.Rand, n int, twoFiles, small bool) *Prog {
	p := &Prog{}
	nmeth := 0
	for i := 0; i < n; i++ {
		f := ProgFunc{Name: fmt.Sprintf("f%d", i)}
		if !small && r.Chance(1, 3) {
			// methods on two receiver types share names (M0 on *T and M0 on *U): same method name, different
			// declaration, in one file
			f.Method = true
			f.Recv = []string{"T", "U"}[nmeth%2]
			f.Name = fmt.Sprintf("M%d", nmeth/2)
			nmeth++
			f.Words = 1
		}
		budget := 10
		if r.Chance(1, 8) {
			budget = 16 // deliberately more than the runtime prints
		}
		np := 1 + r.Intn(6)
		for k := 0; k < np; k++ {
			pp := GenParam(r)
			if small {
				pp = genSmallParam(r)
			}
			if n := len(f.Params); !small && n > 0 && r.Chance(1, 4) {
				// same type as the previous parameter (a fresh value): exercises "a, b T" declarations
				for tries := 0; tries < 200 && pp.Kind != f.Params[n-1].Kind; tries++ {
					pp = GenParam(r)
				}
			}
			if f.Words+pp.Words > budget {
				continue
			}
			f.Params = append(f.Params, pp)
			f.Words += pp.Words
		}
		if len(f.Params) == 0 {
			pp := genIntParam(r)
			if small {
				pp = genSmallParam(r)
			}
			f.Params = append(f.Params, pp)
			f.Words += pp.Words
		}
		if !small && r.Chance(1, 10) && f.Words+3 <= budget {
			f.Params = append(f.Params, ProgParam{Kind: "...int", Lit: "1, 2", Words: 3, Unsupported: true})
			f.Words += 3
		}
		f.Deferred = r.Chance(1, 5)
		if !f.Deferred && r.Chance(1, 6) {
			f.Recur = 1 + r.Intn(2)
		}
		p.Funcs = append(p.Funcs, f)
	}
	type fileW struct {
		b    strings.Builder
		line int
	}
	wr := func(f *fileW, s string) {
		f.b.WriteString(s + "\n")
		f.line++
	}
	header := func(f *fileW) {
		wr(f, "package main")
		wr(f, "")
		wr(f, "import (")
		wr(f, "\t\"fmt\"")
		wr(f, "\t\"time\"")
		wr(f, ")")
		wr(f, "")
		wr(f, "var _ fmt.Stringer")
		wr(f, "var _ = time.Second")
		wr(f, "")
	}
	f1, f2 := &fileW{}, &fileW{}
	header(f1)
	w := func(s string) { wr(f1, s) }
	if twoFiles {
		header(f2)
		// the second file is longer than the first up to here: positions in it are far from those of main.go
		for k := 0; k < 40; k++ {
			wr(f2, fmt.Sprintf("// filler line %d of the second source file", k))
		}
		wr(f2, "")
	}
	call := func(i int) string {
		if i >= len(p.Funcs) {
			return "panic(\"boom\")"
		}
		f := &p.Funcs[i]
		var lits []string
		for _, pp := range f.Params {
			lits = append(lits, pp.Lit)
		}
		if f.Method {
			return "g" + f.Recv + "." + f.Name + "(" + strings.Join(lits, ", ") + ")"
		}
		return f.Name + "(" + strings.Join(lits, ", ") + ")"
	}
	var recVars []string
	blocks := twoFiles && r.Bool()
	outerHalf := r.Bool() // blocks: the outer (printed last) or the inner half of the chain lies in the second file
	for i := range p.Funcs {
		f := &p.Funcs[i]
		out := f1
		// the second file holds every other function, or (blocks) the second half of the chain, so that consecutive
		// frames lie in the same file
		if twoFiles && ((!blocks && i%2 == 1) || (blocks && (i >= len(p.Funcs)/2) != outerHalf)) {
			out = f2
			f.File = "part2.go"
		}
		var ps []string
		for k := 0; k < len(f.Params); k++ {
			// group consecutive parameters of the same type now and then: "p0, p1 int"
			if k+1 < len(f.Params) && f.Params[k+1].Kind == f.Params[k].Kind && (i+k)%2 == 0 {
				ps = append(ps, fmt.Sprintf("p%d, p%d %s", k, k+1, f.Params[k].Kind))
				k++
				continue
			}
			ps = append(ps, fmt.Sprintf("p%d %s", k, f.Params[k].Kind))
		}
		if f.Method {
			wr(out, fmt.Sprintf("func (t *%s) %s(%s) {", f.Recv, f.Name, strings.Join(ps, ", ")))
		} else {
			wr(out, fmt.Sprintf("func %s(%s) {", f.Name, strings.Join(ps, ", ")))
		}
		if f.Recur > 0 {
			// the same function several times on the stack, with the same arguments
			var names []string
			for k := range f.Params {
				n := fmt.Sprintf("p%d", k)
				if strings.HasPrefix(f.Params[k].Kind, "...") {
					n += "..."
				}
				names = append(names, n)
			}
			self := f.Name + "(" + strings.Join(names, ", ") + ")"
			if f.Method {
				self = "t." + self
			}
			wr(out, fmt.Sprintf("\tif gRec%d > 0 {", i))
			wr(out, fmt.Sprintf("\t\tgRec%d--", i))
			wr(out, "\t\t"+self)
			f.RecurLine = out.line
			wr(out, "\t\treturn")
			wr(out, "\t}")
			wr(out, "\t"+call(i+1))
			f.CallLine = out.line
			wr(out, "}")
			recVars = append(recVars, fmt.Sprintf("var gRec%d = %d", i, f.Recur))
		} else if f.Deferred {
			// the callee runs when this function returns: the frame is reported on the line of the closing brace
			wr(out, "\tdefer "+call(i+1))
			wr(out, "}")
			f.CallLine = out.line
		} else {
			wr(out, "\t"+call(i+1))
			f.CallLine = out.line
			wr(out, "}")
		}
		wr(out, "")
	}
	w("func main() {")
	w("\t" + call(0))
	w("}")
	w("")
	// types and package-level values come last: the functions start near the top of the file, so that a line
	// number cut short (main.go:105 -> main.go:10) still points into some function
	w("type T struct{ a, b int }")
	w("")
	w("type U struct{ s string }")
	w("")
	w("var (")
	w("\tgInt    = 5")
	w("\tgMap    = map[string]int{\"a\": 1}")
	w("\tgChan   = make(chan int, 1)")
	w("\tgFunc   = func() {}")
	w("\tgSliceT = make([]T, 4, 9)")
	w("\tgT      = &T{1, 2}")
	w("\tgU      = &U{\"u\"}")
	w("\tgBig    = make([]byte, 1<<20)")
	w("\tgBigStr = string(make([]byte, 600000))")
	w(")")
	w("")
	for _, v := range recVars {
		w(v)
	}
	p.Src = f1.b.String()
	if twoFiles {
		p.Src2 = f2.b.String()
	}
	return p
}
