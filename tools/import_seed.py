#!/usr/bin/env python3
"""import_seed.py <ID> <name> <caught_by comma list> <missed_before comma list or -> <what I ran>: copies /tmp/seed_out/<ID> into /verif/seeded/<name>/ and records my own confirmation in meta.json."""
import json, os, shutil, sys
sid, name, caught, missed, ran = sys.argv[1:6]
src = os.path.join(os.environ.get("SEED_SRC", "/tmp/seed_out"), sid)
dst = "/verif/seeded/%s" % name
os.makedirs(dst, exist_ok=True)
for f in os.listdir(src):
    if os.path.isfile(os.path.join(src, f)): shutil.copy(os.path.join(src, f), dst)
m = json.load(open(os.path.join(dst, "meta.json")))
m["confirmed_by_main_session"] = {
    "ran": ran,
    "result": "demo passes on the clean tree, patch applies/builds, repository suite (220 stable tests) passes with it, demo fails with it",
    "checks_that_catch_it": [c for c in caught.split(",") if c],
    "checks_that_missed_it_before_strengthening": [c for c in missed.split(",") if c and c != "-"],
}
json.dump(m, open(os.path.join(dst, "meta.json"), "w"), indent=1)
print("imported", dst)
