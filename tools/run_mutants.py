#!/usr/bin/env python3
"""Kill matrix: applies each mutant of /verif/mutants/mutants.py (or the seeded patches under /verif/seeded) to a scratch
worktree of /repo, confirms it builds and passes the repository's own suite, then runs the owning checks (quick tier) with
VERIF_REPO=<scratch>. Usage: run_mutants.py [name-substring ...] [--tier quick] [--props C01,C02]"""
import os, subprocess, sys, json, shutil, re
ROOT = os.path.dirname(os.path.dirname(os.path.abspath(__file__)))
sys.path.insert(0, os.path.join(ROOT, "mutants"))
from mutants import M
ENV = dict(os.environ, GOFLAGS="-mod=mod", GOPROXY="off", GOSUMDB="off", GOTOOLCHAIN="local")
def sh(cmd, **kw):
    return subprocess.run(cmd, shell=True, env=ENV, stdout=subprocess.PIPE, stderr=subprocess.STDOUT, text=True, **kw)
def main():
    args = [a for a in sys.argv[1:] if not a.startswith("--")]
    props_override = None
    for a in sys.argv[1:]:
        if a.startswith("--props="): props_override = a.split("=",1)[1].split(",")
    wt = "/tmp/mutwt_%d" % os.getpid()
    results = []
    for mu in M:
        if args and not any(a in mu["name"] for a in args): continue
        sh("git -C /repo worktree remove --force %s" % wt)
        r = sh("git -C /repo worktree add -q %s HEAD" % wt)
        if r.returncode: print(r.stdout); return 1
        p = os.path.join(wt, mu["file"]); s = open(p).read()
        if s.count(mu["old"]) != 1:
            print("%-45s PATCH DOES NOT APPLY (%d matches)" % (mu["name"], s.count(mu["old"]))); results.append((mu["name"], "noapply")); continue
        s = s.replace(mu["old"], mu["new"])
        if "bufio." in mu["new"] and '"bufio"' not in s: s = s.replace('import (\n', 'import (\n\t"bufio"\n', 1)
        open(p, "w").write(s)
        b = sh("cd %s && go build ./... && go vet ./stack/ ./internal/ >/dev/null 2>&1; go build ./..." % wt)
        if b.returncode:
            print("%-45s DOES NOT BUILD\n%s" % (mu["name"], b.stdout[-400:])); results.append((mu["name"], "nobuild")); continue
        t = sh("%s/tools/baseline.sh %s" % (ROOT, wt))
        if t.returncode:
            print("%-45s caught by the existing tests: %s" % (mu["name"], t.stdout.strip().splitlines()[-1][:150])); results.append((mu["name"], "tests")); continue
        verdicts = []
        for prop in (props_override or mu["props"]):
            c = sh("cd %s && VERIF_REPO=%s VERIF_SCRATCH_OUT=/tmp/mut_out ./check %s quick" % (ROOT, wt, prop))
            v = "KILLED" if c.returncode == 1 and "VIOLATION" in c.stdout else ("BROKEN" if c.returncode == 2 else "survived")
            keys = sorted(set(re.findall(r"key=(\S+)", c.stdout)))[:3]
            verdicts.append("%s:%s%s" % (prop, v, (" " + ",".join(keys)) if v == "KILLED" else ""))
        print("%-45s %s" % (mu["name"], "  ".join(verdicts))); results.append((mu["name"], verdicts))
        sys.stdout.flush()
    sh("git -C /repo worktree remove --force %s" % wt)
    sh("rm -rf /tmp/mut_out")
    return 0
sys.exit(main())
