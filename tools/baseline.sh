#!/bin/bash
# Runs the repository's own suite (build tag OFF) on a tree (default /repo) and
# compares with the stable_pass list of /root/.vp/BASELINE.json.
REPO="${1:-/repo}"
export GOFLAGS=-mod=mod GOPROXY=off GOSUMDB=off GOTOOLCHAIN=local
OUT=$(mktemp)
(cd "$REPO" && go test -mod=mod -json -vet=off -count=1 -timeout 25m ./... ) > "$OUT" 2>&1
python3 - "$OUT" <<'PY'
import json,sys
res={}
for l in open(sys.argv[1],errors='replace'):
    try: e=json.loads(l)
    except Exception: continue
    if e.get('Test') and e.get('Action') in('pass','fail','skip'):
        res[e['Package']+'::'+e['Test']]=e['Action']
base=json.load(open('/root/.vp/BASELINE.json'))['stable_pass']
bad=[t for t in base if res.get(t)!='pass']
print('stable_pass=%d passing_now=%d missing_or_failing=%d'%(len(base),sum(1 for t in base if res.get(t)=='pass'),len(bad)))
for t in bad[:20]: print('  NOT PASSING:',t,res.get(t))
sys.exit(1 if bad else 0)
PY
rc=$?
rm -f "$OUT"
exit $rc
