#!/usr/bin/env python3
"""Re-confirms every seeded change under /verif/seeded (index.json) and runs the listed checks against it.
usage: run_seeded.py [name-substring ...]"""
import json, os, subprocess, sys
ROOT = os.path.dirname(os.path.dirname(os.path.abspath(__file__)))
idx = json.load(open(os.path.join(ROOT, "seeded", "index.json")))
for name, e in sorted(idx.items()):
    if sys.argv[1:] and not any(a in name for a in sys.argv[1:]): continue
    r = subprocess.run([os.path.join(ROOT, "tools", "check_seed.sh"), os.path.join(ROOT, "seeded", name), e["demo"], e["pkg"], e["run"]] + e["props"],
                       stdout=subprocess.PIPE, stderr=subprocess.STDOUT, text=True, env=dict(os.environ, SEED_RACE="1" if e.get("race") else "0"))
    lines = [l for l in r.stdout.splitlines() if l.startswith(("CHECK", "demo", "repo suite", "patch", "does not"))]
    print("== %s (rc=%d)\n   %s" % (name, r.returncode, "\n   ".join(lines)))
    sys.stdout.flush()
