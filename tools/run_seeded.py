#!/usr/bin/env python3
"""Re-confirms every seeded change under /verif/seeded (index.json) and runs the listed checks against it.
usage: run_seeded.py [--jobs=N] [name-substring ...]"""
import json, os, subprocess, sys, time
from concurrent.futures import ThreadPoolExecutor
ROOT = os.path.dirname(os.path.dirname(os.path.abspath(__file__)))
idx = json.load(open(os.path.join(ROOT, "seeded", "index.json")))
args = [a for a in sys.argv[1:] if not a.startswith("--jobs=")]
jobs = max([int(a.split("=")[1]) for a in sys.argv[1:] if a.startswith("--jobs=")] + [1])

def one(item):
    name, e = item
    for attempt in range(3):
        r = subprocess.run([os.path.join(ROOT, "tools", "check_seed.sh"), os.path.join(ROOT, "seeded", name), e["demo"], e["pkg"], e["run"]] + e["props"],
                           stdout=subprocess.PIPE, stderr=subprocess.STDOUT, text=True, env=dict(os.environ, SEED_RACE="1" if e.get("race") else "0"))
        if r.returncode != 3:  # 3 = the scratch worktree could not be created (git lock held by a parallel job)
            break
        time.sleep(2 + attempt)
    lines = [l for l in r.stdout.splitlines() if l.startswith(("CHECK", "demo", "repo suite", "patch", "does not"))]
    return "== %s (rc=%d)\n   %s" % (name, r.returncode, "\n   ".join(lines))

todo = [(n, e) for n, e in sorted(idx.items()) if not args or any(a in n for a in args)]
with ThreadPoolExecutor(max_workers=jobs) as ex:
    for out in ex.map(one, todo):
        print(out)
        sys.stdout.flush()
