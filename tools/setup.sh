#!/bin/bash
# Offline setup after a fresh restore: warm the Go build cache for the harness
# (plain and -race) and for pp, so that the first check does not pay for it.
set -u
cd "$(dirname "$0")/.."
export GOFLAGS=-mod=mod GOPROXY=off GOSUMDB=off GOTOOLCHAIN=local
rm -rf .work .build/bin   # scratch of earlier (possibly killed) runs
mkdir -p .build/setup evidence replays .work
sed "s#=> /repo#=> ${VERIF_REPO:-/repo}#" harness/go.mod > .build/setup/h.mod
cp "${VERIF_REPO:-/repo}/go.sum" .build/setup/h.sum
(cd harness && go build -tags verif -modfile="$PWD/../.build/setup/h.mod" -o ../.build/setup/vcheck ./cmd/vcheck) || exit 1
(cd harness && go build -race -tags verif -modfile="$PWD/../.build/setup/h.mod" -o ../.build/setup/vcheck.race ./cmd/vcheck) || exit 1
(cd "${VERIF_REPO:-/repo}" && go build -tags verif -o /verif/.build/setup/pp ./cmd/pp) || exit 1
rm -rf .build/setup
echo setup ok
