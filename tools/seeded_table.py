#!/usr/bin/env python3
"""Prints the markdown catch matrix of /verif/seeded (from each meta.json) for DESIGN.md section 9.5."""
import json, os
ROOT = os.path.dirname(os.path.dirname(os.path.abspath(__file__)))
idx = json.load(open(os.path.join(ROOT, "seeded", "index.json")))
print("| seeded change | what it does / needs | caught by | missed at first (check then strengthened) |")
print("|---|---|---|---|")
for name in sorted(idx):
    m = json.load(open(os.path.join(ROOT, "seeded", name, "meta.json")))
    c = m.get("confirmed_by_main_session", {})
    needs = (m.get("needs_to_manifest") or "").replace("\n", " ").replace("|", "/")
    if len(needs) > 170: needs = needs[:167] + "..."
    print("| %s | %s | %s | %s |" % (name, needs, " ".join(c.get("checks_that_catch_it", [])), ", ".join(c.get("checks_that_missed_it_before_strengthening", [])) or ""))
