#!/bin/bash
# Confirms a seeded change and runs the owning checks against it.
# usage: check_seed.sh <seed-dir> <demo-file> <package-dir-relative> <go test -run regexp> <props...>
#   seed-dir contains patch.diff and the demo file.
# Confirms: (1) demo passes on the clean tree, (2) patch applies, builds, repo suite passes, (3) demo fails with the patch,
# then runs ./check <prop> quick with VERIF_REPO=<scratch> for each prop. Scratch worktree is removed at the end.
set -u
SEED="$1"; DEMO="$2"; PKG="$3"; RUN="$4"; shift 4
RACEFLAG=""; [ "${SEED_RACE:-}" = 1 ] && RACEFLAG="-race"   # demonstrations of data races need the race detector
export GOFLAGS=-mod=mod GOPROXY=off GOSUMDB=off GOTOOLCHAIN=local
WT=/tmp/seedchk_$$
git -C /repo worktree add -q "$WT" HEAD || exit 3
trap 'git -C /repo worktree remove --force "$WT" >/dev/null 2>&1; rm -rf /tmp/seedchk_out_$$' EXIT
cp "$SEED/$DEMO" "$WT/$PKG/"
if (cd "$WT" && go test $RACEFLAG -vet=off -count=1 -run "$RUN" "./$PKG/") >/tmp/seedchk_$$.log 2>&1; then echo "demo on clean tree: PASS (as required)"; else echo "demo on clean tree: FAIL (seed rejected)"; tail -5 /tmp/seedchk_$$.log; exit 4; fi
rm "$WT/$PKG/$DEMO"
if ! git -C "$WT" apply "$SEED/patch.diff"; then echo "patch does not apply"; exit 5; fi
(cd "$WT" && go build ./...) || { echo "does not build"; exit 6; }
if /verif/tools/baseline.sh "$WT" > /tmp/seedchk_base_$$.log 2>&1; then tail -2 /tmp/seedchk_base_$$.log; echo "repo suite with the change: PASS (as required)"; else tail -4 /tmp/seedchk_base_$$.log; echo "repo suite FAILS with the change (seed rejected)"; exit 7; fi
cp "$SEED/$DEMO" "$WT/$PKG/"
if (cd "$WT" && go test $RACEFLAG -vet=off -count=1 -run "$RUN" "./$PKG/") >/tmp/seedchk_$$.log 2>&1; then echo "demo with the change: PASS (seed rejected: not demonstrated)"; exit 8; else echo "demo with the change: FAIL (as required)"; fi
rm "$WT/$PKG/$DEMO"; rm -f /tmp/seedchk_$$.log
for P in "$@"; do
  out=$(cd /verif && VERIF_REPO="$WT" VERIF_SCRATCH_OUT=/tmp/seedchk_out_$$ ./check "$P" quick 2>&1); rc=$?
  keys=$(echo "$out" | grep -o 'key=[^ ]*' | sort -u | head -4 | tr '\n' ' ')
  case $rc in 1) echo "CHECK $P: KILLED ($keys)";; 0) echo "CHECK $P: survived";; *) echo "CHECK $P: rc=$rc"; echo "$out" | tail -3;; esac
done
