#!/bin/bash
# Reach analysis (not a verdict): builds vcheck and pp with -cover for the panicparse packages, runs the quick tier of the
# given checks (default: all), and prints per-file block coverage of /repo plus the uncovered blocks.
set -u
cd "$(dirname "$0")/.."
export GOFLAGS=-mod=mod GOPROXY=off GOSUMDB=off GOTOOLCHAIN=local VERIF_ROOT="$PWD" VERIF_REPO=/repo
OUT=/tmp/verif_cov_$$; mkdir -p $OUT/bin $OUT/data $OUT/work
sed "s#=> /repo#=> /repo#" harness/go.mod > $OUT/h.mod; cp /repo/go.sum $OUT/h.sum
PK=github.com/maruel/panicparse/v2
(cd harness && go build -cover -covermode=atomic -coverpkg=$PK/stack,$PK/stack/webstack,verifharness/cmd/vcheck -tags verif -modfile=$OUT/h.mod -o $OUT/bin/vcheck ./cmd/vcheck) || exit 1
(cd /repo && go build -cover -covermode=atomic -coverpkg=$PK/internal,$PK/stack,$PK/cmd/pp -tags verif -o $OUT/bin/pp ./cmd/pp) || exit 1
export VERIF_BIN=$OUT/bin VERIF_WORK=$OUT/work VERIF_SCRATCH_OUT=$OUT/scratch GOCOVERDIR=$OUT/data GORACE="halt_on_error=0 exitcode=0"
IDS="${*:-C01 C02 C03 C04 C05 C06 C07 C08 C09 C10 C11 C12 C13 C14 C15 C16 C17 C18 C19 C20}"
for id in $IDS; do $OUT/bin/vcheck $id quick 2>&1 | grep -E "SUMMARY|VIOLATION|BROKEN" | cut -c1-150; done
go tool covdata textfmt -i=$OUT/data -o $OUT/cov.txt
python3 - $OUT/cov.txt <<'PY'
import sys,collections
tot=collections.Counter(); cov=collections.Counter(); unc=collections.defaultdict(list)
seen={}
for l in open(sys.argv[1]):
    if l.startswith('mode:'): continue
    loc,n,c=l.rsplit(' ',2)
    seen[loc]=max(seen.get(loc,0),int(c)), int(n)
for loc,(c,n) in seen.items():
    f=loc.split(':')[0]
    if 'verifharness' in f or 'verif_' in f: continue
    tot[f]+=1
    if c>0: cov[f]+=1
    else: unc[f].append(loc.split(':')[1])
for f in sorted(tot): print('%-60s %4d/%4d blocks %.1f%%'%(f,cov[f],tot[f],100.0*cov[f]/tot[f]))
print()
for f in sorted(unc):
    print(f, 'uncovered:', ' '.join(sorted(unc[f], key=lambda x:int(x.split('.')[0]))[:60]))
PY
rm -rf $OUT
