#!/usr/bin/env python3
"""Regenerates /verif/MANIFEST.json from the table below (kept next to the checks so it stays current)."""
import json, os
ROOT = os.path.dirname(os.path.dirname(os.path.abspath(__file__)))
HOOK_COMMITS = ["7269fa9", "9d4e5c3"]  # /repo commits that add the verif-tagged hooks
# id -> (level, technique, level text, level note, design ref)
CHECKS = {
 "C02": ("exploration", "per-call byte-accounting monitor (P ++ X ++ S == consumed input, X == the dump's span) under the resume protocol + metamorphic CLI oracle pp(stream) == stream with pp(dump) substituted",
         "Streams with known dump positions are scanned with the documented resume protocol by the real ScanSnapshot; a conservation monitor accounts for every input byte per call and globally; all line-kind sequences of bounded length from every scanner state are enumerated; the real pp binary is driven end to end (stdin and file argument, with and without its banner), also on the real crash output of the repository's cmd/panic scenarios. Held on the streams explored.",
         "Trusts the stream generator's rule for which first line cannot continue a dump; the EOF-while-withheld class is a listed known finding.", "4/C02"),
 "C07": ("exploration", "online trace checker: scan-hook transitions vs executable reference line automaton, exhaustive bounded line-kind sequences from every scanner state + resume-protocol monitor on generated multi-dump streams",
         "Every (state, line-kind) transition the real scanner takes on all sequences of L lines over a 28-text alphabet, started from each of its states, is compared online with a reference automaton written from the documentation; generated streams check one snapshot per dump, equal to ground truth and to the dump scanned alone, no position scanned twice or skipped. Exhaustive for the bounded sequence space, sampled for streams.",
         "Trusts the reference automaton (DESIGN appendix A; 'either' cells are not decided) and the scan hook reporting the true scanner state.", "4/C07"),
 "C08": ("exploration", "generated race reports vs abstract ground truth (field-by-field oracle), negative variant with unknown goroutine id, remainder accounting after the closing separator",
         "Reports printed by a model of tsan's Go report printer are parsed by the real ScanSnapshot and compared with the abstract report; the text after the closing separator must come back as remainder; a creation section for an unknown goroutine must be an error and must not be attributed to another goroutine. Held on the reports explored.",
         "Trusts the generator's reading of tsan_report.cpp (Go branch).", "4/C08"),
 "C03": ("exploration", "crash/hang net over child-process batches (recover + process-death detection + progress watchdog) on grammar-aware mutated inputs, exhaustive bounded line-kind sequences, pp exit-status monitor, allocation-volume scaling monitor",
         "Mutated dumps/reports/streams and all bounded line-kind sequences go through the whole pipeline (repeated scanning to exhaustion with a strict-progress assertion, 4 aggregation levels, both HTML renderings, path guessing and source analysis on) in child processes; the pp binary is run on a sample; real cmd/panic crash output and real tracebacks of generated programs (sources present) are corrupted too; invalid options, a source that makes no progress and a failing writer are covered; linear work is decided by counting Read calls / line scans and by TotalAlloc growth over scaling families; the thorough tier adds Go native coverage-guided fuzzing of the same pipeline. Held on the inputs explored.",
         "Allocation volume is a proxy for work; the superlinear root-guessing class is a listed known finding.", "4/C03"),
 "C09": ("exploration", "metamorphic oracle over scripted io.Reader schedules: (snapshot, forwarded bytes, error, remainder++unread) vs the single-Read baseline; all 2^(n-1) chunkings of short inputs, all single/double split points of small dumps",
         "The scripted reader plays the scheduler: the same bytes are delivered one byte at a time, in fixed and random chunks, with zero-length read runs, with a boundary at every line end +/-2, with EOF attached to the last data; every schedule must give the same 4-tuple as a single Read (generated streams and the real crash output of cmd/panic). Exhaustive for short inputs, sampled otherwise.",
         "Assumes readers honour the io.Reader contract (sticky error, n <= len(p)).", "4/C09"),
 "C10": ("fault_enumeration", "every byte offset x 3 failure modes (EOF, sticky error, error with last data) injected by the scripted reader; oracle compares goroutines before the cut with the uncut parse, the error identity and the forwarded-bytes prefix rule; web handler with maxmem below the dump size",
         "For each generated stream every cut offset and every way of signalling the cut is enumerated and executed on the real code (no sampling within an input); the set of inputs is sampled.",
         "A cut before a dump's recognition point leaves non-dump text that must be passed through (C02), see DESIGN 4/C10.", "4/C10"),
 "C11": ("exploration", "streaming monitor on a scripted reader (prefix-writer length sampled at every Read entry = every potential blocking point; no Read after the dump-ending line) with a read-ahead positive control + causal pipe-level monitor on the pp binary",
         "At every point where the source could block, the bytes already forwarded are compared with the complete non-dump lines delivered so far; the call must return before the next Read once the line ending a dump was delivered. End to end the pp binary is fed piece by piece through pipes with a causal (not temporal) classification. Held on the schedules explored.",
         "A Read call is the only blocking point of a source; e2e waits are watchdogs only.", "4/C11"),
 "C04": ("exploration", "set-arithmetic monitor on bucket id lists over an exhaustive multiset/permutation enumeration of a signature universe + large random snapshots + parsed generated dumps",
         "Every aggregation (4 levels) of every multiset of <= 3 goroutines (all arrival orders for pairs and a third of the triples), of 4-multisets of a smaller universe, of large repetitive snapshots and of parsed dumps is checked: ids non-empty, ascending, disjoint, union == snapshot, exactly the bucket holding goroutine 0 flagged first, back-reference to the snapshot. Exhaustive over the bounded universe.",
         "Goroutine ids unique per snapshot.", "4/C04"),
 "C05": ("exploration", "reference-partition monitor: buckets vs classes of an independently written canonical key per level; refinement chain; order independence over all permutations; equivalence laws of the real relation (hook) on all triples, merged keys included",
         "Same case list as C04. The partition produced by the real Aggregate must equal the partition induced by a canonical key computed from exported fields only, refine the next coarser level and be invariant under permutation; the real similar() is checked to be an equivalence on all triples of the universe and merge() to preserve the class.",
         "IsInaccurate and the parent id inside 'created by f in goroutine N' are not varied (not stated by the property).", "4/C05"),
 "C12": ("exploration", "member-vs-signature monitor: every bucket's signature walked position-wise against all its members, all arrival orders",
         "Same case list as C04. For each bucket: state/creator/frames equal to every member's, an argument is '*' iff it differs between members, unchanged otherwise, sleep range == min/max, locked == OR.",
         "Arguments compared as (value, pointer-ness, '_').", "4/C12"),
 "C13": ("exploration", "strict-weak-order law checker on the real comparator (hook) over all triples of a signature universe + black-box linear-extension monitor on aggregated snapshots",
         "All triples of a universe of ~600 (quick) / ~1100 (thorough) signatures are checked for irreflexivity, asymmetry, transitivity and transitivity of incomparability; the stated consequence (user code before all-stdlib) on all pairs; aggregated snapshots must present buckets in an order that is a linear extension of the comparator with the First bucket first.",
         "The comparator observed through the hook is the one Aggregate sorts with (the black-box part ties them).", "4/C13"),
 "C06": ("exploration", "repetition monitor: same bytes/options/files executed R times in one process (with unrelated calls in between) and in fresh pp processes; deep comparison of snapshot, ordered buckets, merged signatures, HTML (time masked), console bytes",
         "Each repetition samples new outcomes of Go's randomised map iteration; inputs are built so that buckets tie under the ordering and so that GOPATH/module roots overlap. Held on the repetitions executed (a rare iteration order can be missed).",
         "Map iteration order is the only schedule inside the library; R = 30/200 in-process, 10/40 processes.", "4/C06"),
 "C14": ("exploration", "pristine-twin monitor (deep equality after every Aggregate/ToHTML call) + Go race detector on a concurrent driver sharing snapshots and options, results compared with the sequential ones, racy canary as positive control",
         "Sequential histories of aggregations/renderings must leave the snapshot deep-equal to a twin parsed from the same bytes; N goroutines operate on shared snapshots and a shared *Opts under -race at GOMAXPROCS 2/4/16. Race detection is per execution: held on the interleavings that occurred.",
         "The race detector only sees races that occur in the run; canary proves it is live.", "4/C14"),
 "C15": ("exploration", "labelling-law monitor over parsed generated dumps with pointer pools (forced recurrence), naming on vs off",
         "The laws of the statement are checked literally on every parsed snapshot; naming off must give no names and nothing else may change.",
         "Single-occurrence pointers of the first goroutine may or may not be named (not stated).", "4/C15"),
 "C16": ("exploration", "pp stdout block parser vs library buckets: header pieces, per-frame line equation with global column offsets, colour-strip metamorphic relation, filter/match three-way split",
         "The real pp binary renders generated dumps and race reports under the flag matrix; completeness, order, alignment (rune offsets), elision marker, colour independence and filter/match complementarity are checked on its stdout.",
         "Bucket membership/order come from the library (decided by C04/C05/C13).", "4/C16"),
 "C17": ("exploration", "HTML5 tokenizer monitor (vendored x/net/html) with template-derived tag/attribute whitelist, href rules, unique markers in every string field, structural counts",
         "Hostile snapshots (payload + marker in every string field) and hostile dumps are rendered by the real ToHTML and tokenized: nothing outside the template's vocabulary, no script/handler/comment, fixed link schemes, markers only as character data or in hrefs and all present, counts equal to the input's.",
         "The tokenizer stands for the browser; Location values restricted to the declared enum.", "4/C17"),
 "C18": ("exploration", "generated file-system layouts with ground truth (which local file/root/class each remote frame corresponds to) vs the fields ScanSnapshot fills with GuessPaths, decoy frames included",
         "Layouts are created on disk under .work, a dump referencing them through renamed remote roots is parsed with GuessPaths, and every frame's LocalSrcPath/RelSrcPath/ImportPath/Location plus the detected roots are compared with the generator's table.",
         "Relative paths unique across roots by construction; priority questions (nested modules) are exercised in C06.", "4/C18"),
 "C19": ("exploration", "generated Go programs compiled and crashed with the installed toolchain(s); the real traceback's typed argument rendering compared position by position with the literals the program passed; mismatching source trees as fault cases",
         "Programs are generated (chains of functions/methods with random parameter lists over the supported kinds and boundary literals), compiled with -gcflags '-N -l', crashed, and their real traceback is parsed with source analysis; each rendered argument must equal what the program passed, everything else must equal the parse without source analysis; deleted/truncated/shifted/re-arity'd/broken sources must neither crash nor change a frame.",
         "Trusts the toolchains' traceback encoding; values beyond the runtime's 10-word limit are 'not shown'.", "4/C19"),
 "C20": ("exploration", "live-runtime monitor: the process's own runtime.Stack(all) dump vs an independent header count and a registry built from runtime.Callers; concurrent httptest clients against the handler under goroutine churn and the race detector, per-request dump correlation through the webstack hook",
         "Churn rounds at GOMAXPROCS 1/4/16 parse the live dump and compare known goroutines' states, frames and creators with the registry; concurrent clients (some of them slow readers, small socket buffers: the handler's writes block and overlap) issue valid and invalid requests against a real listener; every 200 page must be one complete document, must account for all goroutines of the dump that request captured and pass the HTML tokenizer rules; invalid requests 4xx; -race with a canary. Held on the schedules that occurred.",
         "States compared only after the settle loop; race detection is per execution.", "4/C20"),
 "C01": ("exploration", "generated dumps vs abstract ground truth (field-by-field oracle) + live-runtime registry vs runtime.Callers",
         "Every dump printed by a model of the runtime's traceback printer (all 864 format-variant combinations, all symbol/file/argument shapes, lines > 16 KiB) is parsed by the real ScanSnapshot and compared field by field with the abstract dump it was printed from; live rounds compare the running process's own dump with a registry built from runtime.Callers. Held-on-what-was-explored; the input space is unbounded.",
         "Trusts the generator's reading of runtime/traceback.go and of the linker's PathToPrefix escaping; 64-bit host.", "4/C01"),
}

# phases added during the rounds of seeded changes (DESIGN.md 9.5), appended to the level text
ADDED = {
 "C02": "Also: ANSI colour sequences and indented race-header pairs in junk, pp -html in the CLI stream cases, a last unterminated line of 16384 +/- 1 bytes after a dump.",
 "C08": "Also: one case in 97 with stacks of up to 300 frames, mixed addresses.",
 "C09": "Also: byte-order marks glued to the first line, a last unterminated line of 16384 +/- 1 bytes after a dump.",
 "C01": "Also: symbol names with spaces and indented blank separators (ids up to 18 digits and one-digit minutes were in the generator from the start). One dump in 2000 has up to 4000 goroutines.",
 "C03": "Also: generated file-system layouts (incl. paths that are a detected root plus a short remainder) through scan/guess/analyse/aggregate/render; pp on reports whose stacks lie in one location class; every number of a real traceback (sources present) replaced by every boundary value of a decimal parser. ",
 "C04": "Also: a struct copy of the snapshot with another goroutine list and the snapshot after a goroutine was removed (each aggregation answers for the goroutines held at that moment), the empty snapshot, snapshots whose crashing goroutine is not element 0, race-style snapshots with descending ids.",
 "C05": "Also: resolved snapshots, same frame under another root, multi-call creator stacks, non-pointer siblings of pointers, '?' and '_' twins. A third state that differs by the runtime's parenthesised qualifier, aggregates with an inner elision, files and function names differing by letter case only. go1.21-style creators (one function, two parents, two lines); parsed dumps with an accuracy twin.",
 "C06": "Also: packages present in two GOPATHs; history phases - a snapshot rendered / a dump scanned after another one that names the same files resolves like the same one alone (fresh names per trial, mapped back).",
 "C07": "Also: the pp binary on multi-dump streams; stray carriage returns as junk and as the line that ends a dump. Indented race-header pairs and ANSI colour sequences in junk.",
 "C10": "Also: real tracebacks of generated programs with their sources on disk cut at every offset (path guessing and source analysis on); a persistent failure that calls itself temporary as a fourth way of signalling, a one-shot failure after which the source goes on as a fifth; cuts inside lines longer than the 16 KiB line buffer.",
 "C11": "Also: a quarter of the end-to-end sessions feed pp through a named pipe given as its file argument; a second dump glued to the first without an empty line. Indented dumps followed by a less indented line.",
 "C12": "Also: derived fields (location class, local/relative path, import path) of a bucket frame are those of a member; typed argument strings are displayed only when every member has exactly these. Four sleep values of one signature in every arrival order.",
 "C13": "Also: arrival-order independence of the presented order (10 arrival orders of buckets that tie under the signature comparison, two modes), stacks of 255..70000 frames of one class, the class-ranking law with equal package-main counts. Pairwise-relation phase: two buckets alone in both arrival orders tell tied/strict; 'tied' must be transitive and larger aggregations must respect the strict pairs.",
 "C14": "Also: phase 0 cold start (the first library calls of the process are 16 concurrent renderings, repeated in 8/24 fresh processes), concurrent scans with source analysis over freshly written files with shared two-GOPATH options (options compared afterwards), pp's console rendering (second verif hook) in the immutability sequences and concurrent phases, a web phase (augment=0/1 in sequence and concurrently).",
 "C15": "Also: snapshots handed out together with an error, race reports whose creation frames carry arguments, a sources phase (naming + source analysis on real tracebacks).",
 "C16": "Also: buckets of 11/1/1 goroutines with expressions anchored at both ends. Long /vN module names, per cent signs in paths.",
 "C17": "Also: module-cache case encoding, version-shaped payloads, method-symbol fragments, paths without a directory part, stacks of 99..168 frames.",
 "C18": "Also: absent/present siblings, shadow files at shorter tails, roots containing src or pkg/mod components or no leading slash, two remote roots for one GOPATH, go-test mains under detected roots and as sole witness, neighbours of one directory with different per-file answers, snapshots handed out with an error. Package main at a module root, floods of absent foreign files sorting first.",
 "C19": "Also: programs spread over two files, deferred calls (frames on the closing brace), recursive calls, directional channels, lengths above the pointer floor. Block placement over two files with a second-file mismatch, parameters straddling the 10 printed words, short programs whose every word fits in 32 bits. Local sources with CRLF line endings.",
 "C20": "Also: before each request a marker goroutine is parked - the page must account for every marker that existed before the request was issued; maxmem values below the documented minimum; requests have a watchdog whose firing is classified by what the handler goroutine is doing (parked inside the library = violation handler-blocked, still running = inconclusive).",
}
NOT_YET = {}
def main():
    props = [json.loads(l) for l in open(os.path.join(ROOT, "properties.jsonl"))]
    checks, na = [], []
    for p in props:
        pid = p["id"]
        if pid in CHECKS:
            lvl, tech, text, note, ref = CHECKS[pid]
            checks.append({
                "property_id": pid,
                "quick_cmd": "./check %s quick" % pid,
                "thorough_cmd": "./check %s thorough" % pid,
                "evidence_file": "/verif/evidence/%s.json" % pid,
                "replay_cmd_template": "./check %s --replay {path}" % pid,
                "engine": "vcheck",
                "level_claimed": {"category": lvl, "text": (text + " " + ADDED.get(pid, "")).strip(), "design_ref": "DESIGN.md section " + ref},
                "level_note": note,
                "technique": tech,
            })
        else:
            na.append({"property_id": pid, "reason": NOT_YET.get(pid, "check not built yet in this round; planned in DESIGN.md section 4/" + pid)})
    m = {
        "version": 1,
        "setup_cmd": "./tools/setup.sh",
        "hooks": {
            "guard": "verif",
            "enable": "go build -tags verif (harness module replaces github.com/maruel/panicparse/v2 by /repo; pp binary built with the same tag)",
            "baseline_off_cmd": "cd /repo && go test -mod=mod -json -vet=off -count=1 -timeout 25m ./...",
            "source_commits": HOOK_COMMITS,
            "add_only": True,
        },
        "engines": [{"name": "vcheck", "path": "/verif/harness/cmd/vcheck", "serves_properties": sorted(CHECKS),
                     "kind_free_text": "Go harness linked against the real panicparse packages (build tag verif) plus the real pp binary driven through pipes; generators model the producers of the text, monitors are oracles over observed executions"}],
        "checks": checks,
        "not_applicable": na,
        "notes": "Runtime monitoring only. Validation: mutants/ (62 hand-written mutants, tools/run_mutants.py) and seeded/ (279 changes by independent sub-agents, tools/run_seeded.py), see DESIGN.md 9.5; tools/coverage.sh is the reach analysis. ./check <ID> <quick|thorough> rebuilds harness and pp from /repo's working tree on every call. Exit 0 held / 1 VIOLATION / 2 BROKEN-CHECK. KNOWN_FINDINGS.txt lists known findings and fix commits.",
    }
    json.dump(m, open(os.path.join(ROOT, "MANIFEST.json"), "w"), indent=1)
    print("wrote MANIFEST.json: %d checks, %d not_applicable" % (len(checks), len(na)))
main()
